package bounded

import (
	"fmt"
	"hash/fnv"
	"sort"
	"strconv"
	"strings"
	"sync"
)

// ArithDefsSMT reveals the meaning of the three opaque arithmetic functions
// (Go's *, truncated / and %, before wrap64). The queries of the bounded tier
// keep them uninterpreted (DESIGN 6.6: non-linear operations are opaque; real
// code and reference build the same applications, applications to literals are
// evaluated by the term constructors); OpTermsSMT hands the definitions out for
// the bridge lemmas.
const ArithDefsSMT = `(assert (forall ((a Int) (b Int)) (! (= (gomul a b) (* a b)) :pattern ((gomul a b)))))
(assert (forall ((a Int) (b Int)) (! (= (godiv a b) (ite (= b 0) 0 (ite (>= a 0) (ite (> b 0) (div a b) (- (div a (- b)))) (ite (> b 0) (- (div (- a) b)) (div (- a) (- b)))))) :pattern ((godiv a b)))))
(assert (forall ((a Int) (b Int)) (! (= (gomod a b) (- a (* b (godiv a b)))) :pattern ((gomod a b)))))
`

// PreludeSMT is the fixed part of every query of the bounded tier: the Val /
// Err datatypes and Go's int64 arithmetic.  (No set-logic: core.Solve adds it.)
const PreludeSMT = `(declare-datatypes ((Val 0)) (((VNil) (VDNE) (VBool (bval Bool)) (VInt (ival Int)) (VStr (sval Int)) (VIntList (ilid Int)) (VStrList (slid Int)) (VObj (oid Int)))))
(declare-datatypes ((Err 0)) (((ENil) (EErr (eid Int)) (EBuiltin (efam Int)))))
(define-fun wrap64 ((x Int)) Int (- (mod (+ x 9223372036854775808) 18446744073709551616) 9223372036854775808))
(declare-fun gomul (Int Int) Int)
(declare-fun godiv (Int Int) Int)
(declare-fun gomod (Int Int) Int)
(define-fun inrange64 ((v Val)) Bool (=> ((_ is VInt) v) (and (<= (- 9223372036854775808) (ival v)) (<= (ival v) 9223372036854775807))))
`

// ---------------------------------------------------------------- strings and lists are interned by content hash

var intern struct {
	sync.Mutex
	strs  map[int64]string
	ilist map[int64][]int64
	slist map[int64][]string
}

func init() {
	intern.strs = map[int64]string{}
	intern.ilist = map[int64][]int64{}
	intern.slist = map[int64][]string{}
}

func hashID(kind, s string) int64 {
	h := fnv.New32a()
	h.Write([]byte(kind))
	h.Write([]byte{0})
	h.Write([]byte(s))
	return int64(h.Sum32()&0x3fffffff) + 1000
}

// StrID interns a string literal; the id is a function of the content only.
func StrID(s string) int64 {
	id := hashID("s", s)
	intern.Lock()
	if old, ok := intern.strs[id]; ok && old != s {
		intern.Unlock()
		panic(fmt.Sprintf("bounded: string id collision %q / %q", old, s))
	}
	intern.strs[id] = s
	intern.Unlock()
	return id
}

func StrOf(id int64) (string, bool) {
	intern.Lock()
	defer intern.Unlock()
	s, ok := intern.strs[id]
	return s, ok
}

func IntListID(l []int64) int64 {
	var p []string
	for _, x := range l {
		p = append(p, strconv.FormatInt(x, 10))
	}
	id := hashID("il", strings.Join(p, ","))
	intern.Lock()
	intern.ilist[id] = append([]int64{}, l...)
	intern.Unlock()
	return id
}

func StrListID(l []string) int64 {
	var p []string
	for _, x := range l {
		p = append(p, strconv.Quote(x))
	}
	id := hashID("sl", strings.Join(p, ","))
	intern.Lock()
	intern.slist[id] = append([]string{}, l...)
	intern.Unlock()
	for _, s := range l {
		StrID(s)
	}
	return id
}

func IntListOf(id int64) ([]int64, bool) {
	intern.Lock()
	defer intern.Unlock()
	l, ok := intern.ilist[id]
	return l, ok
}

func StrListOf(id int64) ([]string, bool) {
	intern.Lock()
	defer intern.Unlock()
	l, ok := intern.slist[id]
	return l, ok
}

// ListDefs defines memI / memS / emptyL for the list literals that occur in ts
// (by cases over the literal ids; other ids are left uninterpreted).
func ListDefs(ts ...*T) string {
	il := map[int64]bool{}
	sl := map[int64]bool{}
	for _, t := range ts {
		if t == nil {
			continue
		}
		t.Walk(func(x *T) {
			if (x.Op == "VIntList" || x.Op == "VStrList") && x.Args[0].isLit() {
				id := x.Args[0].Lit.Int64()
				if x.Op == "VIntList" {
					il[id] = true
				} else {
					sl[id] = true
				}
			}
			// after simplification the literal id may appear without its constructor
			if (x.Op == "memI" || x.Op == "memS") && x.Args[1].isLit() {
				id := x.Args[1].Lit.Int64()
				if x.Op == "memI" {
					il[id] = true
				} else {
					sl[id] = true
				}
			}
			if x.Op == "emptyL" && x.Args[0].isLit() {
				sl[x.Args[0].Lit.Int64()] = true
			}
		})
	}
	keys := func(m map[int64]bool) []int64 {
		var k []int64
		for x := range m {
			k = append(k, x)
		}
		sort.Slice(k, func(i, j int) bool { return k[i] < k[j] })
		return k
	}
	var sb strings.Builder
	sb.WriteString("(declare-fun memI_u (Int Int) Bool)\n(declare-fun memS_u (Int Int) Bool)\n(declare-fun emptyL_u (Int) Bool)\n")
	body := "(memI_u x l)"
	for _, id := range keys(il) {
		l, _ := IntListOf(id)
		var cs []string
		for _, e := range l {
			cs = append(cs, "(= x "+Int(e).String()+")")
		}
		body = fmt.Sprintf("(ite (= l %d) (or false %s) %s)", id, strings.Join(cs, " "), body)
	}
	sb.WriteString("(define-fun memI ((x Int) (l Int)) Bool " + body + ")\n")
	body = "(memS_u x l)"
	ebody := "(emptyL_u l)"
	for _, id := range keys(sl) {
		l, _ := StrListOf(id)
		var cs []string
		for _, e := range l {
			cs = append(cs, fmt.Sprintf("(= x %d)", StrID(e)))
		}
		body = fmt.Sprintf("(ite (= l %d) (or false %s) %s)", id, strings.Join(cs, " "), body)
		ebody = fmt.Sprintf("(ite (= l %d) %v %s)", id, len(l) == 0, ebody)
	}
	sb.WriteString("(define-fun memS ((x Int) (l Int)) Bool " + body + ")\n")
	sb.WriteString("(define-fun emptyL ((l Int)) Bool " + ebody + ")\n")
	return sb.String()
}
