package bounded

import (
	"strings"
)

// Domain carries the domain assumptions of a relation (DESIGN section 3): they
// are asserted in every query AND used to prune path enumeration (an atom that
// an assumption fixes is not forked on). Both uses come from this one file.
//
// Always assumed (well-behaved fetchers / operators, supported types):
//   - a value returned by Get or by a custom operator is a scalar of a supported
//     type: nil, bool, int64 (in range) or string -- never the DNE sentinel,
//     never a list (lists enter only as literals; comparing two lists panics in
//     the real comparisonEquals: finding F4, outside this tier);
//   - a boolean-typed variable (b0..b2, ub) holds a bool or its Get fails;
//     the custom operator fb returns a bool or fails.
type Domain struct {
	AllBound bool // every Get succeeds (the quantifier of C02 / C03)
	AllAvail bool // every variable is cached
	NoNil    bool // fetched values and custom-operator results are not nil (C05's "never nil" clause)
}

func (d *Domain) Describe() []string {
	out := []string{
		"values returned by the fetcher and by custom operators are scalars of a supported type (nil, bool, int64, string), never the DNE sentinel itself, never a list",
		"boolean-typed variables (b0..b2, ub) hold a bool or their Get fails; the custom operator fb returns a bool or fails (and/or operands are boolean-typed or failing, C01's quantifier)",
		"fetcher and custom operators are functions of their arguments during one evaluation (uninterpreted gv_/ge_/av_ constants, cv_/ce_ functions)",
		"built-in operators are replaced by the direct terms of opterms.go (bridge lemmas to the proved contracts are the proof tier's); the error of a failing built-in is identified by WHICH operator failed (what a replay can observe of it), errors of the fetcher and of custom operators by identity",
	}
	if d.AllBound {
		out = append(out, "every referenced variable is bound: Get never fails (quantifier of C02/C03)")
	}
	if d.AllAvail {
		out = append(out, "every variable is available (Cached is true)")
	}
	if d.NoNil {
		out = append(out, "fetched values and custom-operator results are not nil (only for C05's never-nil clause)")
	}
	return out
}

// oracle value symbols: gv_<name> (Get), gw_<name> (completion binding), cv_<op>_<n> applications
func isOracleVal(t *T) (name string, kind string) {
	switch {
	case len(t.Args) == 0 && strings.HasPrefix(t.Op, "gv_"):
		return t.Op[3:], "gv"
	case len(t.Args) == 0 && strings.HasPrefix(t.Op, "gw_"):
		return t.Op[3:], "gw"
	case strings.HasPrefix(t.Op, "cv_"):
		return t.Op[3:], "cv"
	}
	return "", ""
}

func isOracleErr(t *T) bool {
	return t.Sort == SErr && (strings.HasPrefix(t.Op, "ge_") || strings.HasPrefix(t.Op, "gwe_") || strings.HasPrefix(t.Op, "ce_"))
}

func errSymFor(t *T) *T {
	name, kind := isOracleVal(t)
	switch kind {
	case "gv":
		return Sym("ge_"+name, SErr)
	case "gw":
		return Sym("gwe_"+name, SErr)
	case "cv":
		if len(t.Args) == 0 {
			return Sym("ce_"+name, SErr)
		}
		return App("ce_"+name, SErr, t.Args...)
	}
	return nil
}

func boolTyped(t *T) bool {
	name, kind := isOracleVal(t)
	switch kind {
	case "gv", "gw":
		return Alpha.IsBoolVar(name)
	case "cv":
		return strings.HasPrefix(name, Alpha.CustomBool+"_")
	}
	return false
}

// Implied: is the atom fixed by the domain assumptions (given what the path
// already decided)?
func (d *Domain) Implied(atom *T, r *Path) (bool, bool) {
	if strings.HasPrefix(atom.Op, "is-") && len(atom.Args) == 1 {
		x := atom.Args[0]
		ctor := atom.Op[3:]
		if _, kind := isOracleVal(x); kind != "" {
			switch ctor {
			case "VDNE", "VIntList", "VStrList", "VObj":
				return false, true
			case "VNil":
				if d.NoNil {
					return false, true
				}
			case "VBool":
				if boolTyped(x) {
					if ok, known := r.Known(Is("ENil", errSymFor(x))); known && ok {
						return true, true
					}
					if d.AllBound && kind != "cv" {
						return true, true
					}
				}
			}
		}
		if ctor == "ENil" && len(x.Args) == 0 && d.AllBound && (strings.HasPrefix(x.Op, "ge_") || strings.HasPrefix(x.Op, "gwe_")) {
			return true, true
		}
		if ctor == "EBuiltin" && isOracleErr(x) {
			return false, true // an error of the fetcher / a custom operator is not a built-in's error
		}
	}
	if d.AllAvail && len(atom.Args) == 0 && strings.HasPrefix(atom.Op, "av_") {
		return true, true
	}
	return false, false
}

// Assumptions returns the assertions for the oracle symbols occurring in ts.
func (d *Domain) Assumptions(ts ...*T) []*T {
	var out []*T
	seen := map[string]bool{}
	add := func(t *T) {
		if !t.IsTrue() && !seen[t.String()] {
			seen[t.String()] = true
			out = append(out, t)
		}
	}
	for _, x := range Apps([]string{"gv_", "gw_", "cv_", "ge_", "gwe_", "ce_", "av_"}, ts...) {
		if _, kind := isOracleVal(x); kind != "" {
			add(Not(Is("VDNE", x)))
			add(Not(Is("VIntList", x)))
			add(Not(Is("VStrList", x)))
			add(Not(Is("VObj", x)))
			add(App("inrange64", SBool, x))
			if d.NoNil {
				add(Not(Is("VNil", x)))
			}
			add(Not(Is("EBuiltin", errSymFor(x))))
			if boolTyped(x) {
				add(Or(Not(Is("ENil", errSymFor(x))), Is("VBool", x)))
			}
			if d.AllBound && kind != "cv" {
				add(Is("ENil", errSymFor(x)))
			}
			continue
		}
		if isOracleErr(x) {
			add(Not(Is("EBuiltin", x)))
		}
		if len(x.Args) == 0 && d.AllBound && (strings.HasPrefix(x.Op, "ge_") || strings.HasPrefix(x.Op, "gwe_")) {
			add(Is("ENil", x))
		}
		if len(x.Args) == 0 && d.AllAvail && strings.HasPrefix(x.Op, "av_") {
			add(x)
		}
	}
	return out
}
