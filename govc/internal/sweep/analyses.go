package sweep

import (
	"fmt"
	"go/token"
	"go/types"
	"regexp"
	"sort"
	"strings"

	"golang.org/x/tools/go/ssa"
)

// ---------------------------------------------------------------- operator table (C18, C10, C01)

func (sw *sweeper) optable(a Analysis) {
	tab, order, err := sw.iv.OperatorTable(sw.key)
	if err != nil {
		sw.add("sweep/optable/evaluable", "table", "builtinOperators is a literal evaluated from the package initializer", false, err.Error(), token.NoPos)
		return
	}
	sw.add("sweep/optable/evaluable", "table", fmt.Sprintf("builtinOperators is a literal evaluated from the package initializer (%d entries)", len(order)), true, "", token.NoPos)
	same := func(x, y *OpEntry) (bool, string) {
		if x.Fn != y.Fn {
			return false, fmt.Sprintf("%s is %s but %s is %s", x.Name, x.Func, y.Name, y.Func)
		}
		if fmt.Sprint(sortedFields(x.Fields)) != fmt.Sprint(sortedFields(y.Fields)) {
			return false, fmt.Sprintf("receivers differ: %s %v vs %s %v", x.Name, sortedFields(x.Fields), y.Name, sortedFields(y.Fields))
		}
		return true, ""
	}
	for _, grp := range a.Aliases {
		if len(grp) < 2 {
			continue
		}
		first := tab[grp[0]]
		for _, n := range grp[1:] {
			name := "sweep/optable/alias:" + grp[0] + "=" + n
			e := tab[n]
			if first == nil || e == nil {
				sw.add(name, "table", "alias pair maps to the same function with the same receiver", false, "missing entry", token.NoPos)
				continue
			}
			ok, why := same(first, e)
			sw.add(name, "table", "alias pair maps to the same function with the same receiver", ok, why, token.NoPos)
		}
	}
	var names []string
	for n := range a.Modes {
		names = append(names, n)
	}
	sort.Strings(names)
	for _, n := range names {
		exp := a.Modes[n]
		name := "sweep/optable/entry:" + n
		e := tab[n]
		if e == nil {
			sw.add(name, "table", "named form bound to the function/mode whose contract states its algebra", false, "missing entry", token.NoPos)
			continue
		}
		ok := e.Func == exp.Func
		why := ""
		if !ok {
			why = fmt.Sprintf("bound to %s, expected %s", e.Func, exp.Func)
		}
		for k, v := range exp.Fields {
			if fmt.Sprint(e.Fields[k]) != fmt.Sprint(normNum(v)) {
				ok = false
				why += fmt.Sprintf(" receiver field %s = %v, expected %v;", k, e.Fields[k], v)
			}
		}
		sw.add(name, "table", fmt.Sprintf("named form %s bound to %s %v", n, exp.Func, exp.Fields), ok, why, token.NoPos)
	}
	// every table entry is one of the expected ones (no unexpected extra spelling with different semantics)
	if sl, ok := sw.iv.StringSlice("builtinStatelessOperations"); ok {
		for _, n := range sl {
			_, has := tab[n]
			sw.add("sweep/optable/stateless-is-builtin:"+n, "table", "every name in builtinStatelessOperations is a key of builtinOperators (no nil call in constant folding)", has, "not a key of builtinOperators", token.NoPos)
		}
	} else {
		sw.add("sweep/optable/stateless-list", "table", "builtinStatelessOperations is a string list literal", false, "not evaluable", token.NoPos)
	}
}

func normNum(v interface{}) interface{} {
	if f, ok := v.(float64); ok && f == float64(int64(f)) {
		return int64(f)
	}
	return v
}

func sortedFields(m map[string]cval) []string {
	var out []string
	for k, v := range m {
		out = append(out, fmt.Sprintf("%s=%v", k, v))
	}
	sort.Strings(out)
	return out
}

// ---------------------------------------------------------------- write frame (C07)

var mutatingExternals = map[string]int{ // callee -> index of the mutated argument
	"sort.SliceStable": 0, "sort.Slice": 0, "sort.Sort": 0, "sort.Stable": 0, "sort.Strings": 0, "sort.Ints": 0,
}

var pureExternalPrefixes = []string{"fmt.", "errors.", "strconv.", "strings.", "unicode.", "math.", "time.Parse", "(time.Time).", "(time.Duration).", "(*strings.Builder).", "(*math/rand.Rand).", "context.", "(reflect."}

func (sw *sweeper) frame(a Analysis) {
	set, missing := sw.reach(a)
	tag := "sweep/frame:" + a.Name
	for _, m := range missing {
		sw.add(tag+"/root-exists:"+m, "frame", "root function of the sweep exists", false, "no such function: "+m, token.NoPos)
	}
	sw.curRoots = nil
	for _, r := range a.Roots {
		if f := sw.p.Lookup(r); f != nil {
			sw.curRoots = append(sw.curRoots, f)
		}
	}
	fs := sortedFuncs(sw, set)
	nsites := 0
	for _, fn := range fs {
		k := sw.key(fn)
		check := func(what string, v ssa.Value, pos token.Pos) {
			nsites++
			roots := sw.rootsOf(v, fn, set, 0, map[ssa.Value]bool{})
			ok := true
			var why []string
			for _, r := range roots {
				switch r.kind {
				case "fresh":
				case "freevar":
					// a captured cell: fine when the capturing activation belongs to the same call tree
					if r.fn == nil || r.fn.Parent() == nil || !set[r.fn.Parent()] {
						ok = false
						why = append(why, r.desc+" (cell outlives the call)")
					}
				default:
					ok = false
					why = append(why, r.kind+": "+r.desc)
				}
			}
			sw.add(tag+"/"+k+"/"+what+":"+sw.stmtOf(fn, pos, what), "frame",
				"write targets memory allocated by the same call (assigns \\fresh)", ok, strings.Join(why, "; "), pos)
		}
		for _, b := range fn.Blocks {
			for _, ins := range b.Instrs {
				switch x := ins.(type) {
				case *ssa.Store:
					if isLocalCellAddr(x.Addr) {
						continue
					}
					check("store", x.Addr, x.Pos())
				case *ssa.MapUpdate:
					check("map-update", x.Map, x.Pos())
				case *ssa.Send:
					if !a.AllowSend {
						sw.add(tag+"/"+k+"/send:"+sw.stmtOf(fn, x.Pos(), "send"), "frame", "no channel send", false, "channel send", x.Pos())
					}
				case *ssa.Go, *ssa.Defer, *ssa.Select:
					sw.add(tag+"/"+k+"/"+fmt.Sprintf("%T", ins), "frame", "no goroutine/defer/select on the evaluation path", false, "found", ins.Pos())
				case *ssa.Call:
					com := x.Common()
					if bi, ok := com.Value.(*ssa.Builtin); ok {
						switch bi.Name() {
						case "copy":
							check("copy-into", com.Args[0], x.Pos())
						case "append":
							check("append-to", com.Args[0], x.Pos())
						case "delete":
							check("delete-from", com.Args[0], x.Pos())
						}
						continue
					}
					if sc := com.StaticCallee(); sc != nil && !set[sc] {
						name := sc.String()
						if idx, ok := mutatingExternals[name]; ok {
							arg := com.Args[idx]
							if mi, ok := arg.(*ssa.MakeInterface); ok {
								arg = mi.X
							}
							check("mutating-call("+name+")", arg, x.Pos())
							continue
						}
						if strings.HasPrefix(name, "(*strings.Builder).") {
							check("builder-write", com.Args[0], x.Pos())
							continue
						}
						okExt := false
						for _, p := range pureExternalPrefixes {
							if strings.HasPrefix(name, p) {
								okExt = true
							}
						}
						if !okExt {
							sw.add(tag+"/"+k+"/external:"+name, "frame", "external callee is on the allow-list of functions that do not write through their arguments", false, "unknown external callee "+name, x.Pos())
						}
					}
				}
			}
		}
	}
	sw.add(tag+"/inventory", "frame", fmt.Sprintf("%d functions reachable, %d write sites enumerated", len(fs), nsites), len(fs) > 0 && len(missing) == 0, "empty reachable set", token.NoPos)
}

// isLocalCellAddr: the address is (a field/element of) an Alloc of the same function — a local variable.
func isLocalCellAddr(v ssa.Value) bool {
	for {
		switch x := v.(type) {
		case *ssa.Alloc:
			return !x.Heap || true
		case *ssa.FieldAddr:
			v = x.X
		case *ssa.IndexAddr:
			if _, isPtr := x.X.Type().Underlying().(*types.Pointer); !isPtr {
				return false // element of a slice: not the local cell itself
			}
			v = x.X
		default:
			return false
		}
	}
}

// ---------------------------------------------------------------- package-level variables (C07, C08)

func (sw *sweeper) globals(a Analysis) {
	n := 0
	var fns []*ssa.Function
	for _, f := range sw.p.Funcs {
		fns = append(fns, f)
	}
	sort.Slice(fns, func(i, j int) bool { return sw.key(fns[i]) < sw.key(fns[j]) })
	all := map[*ssa.Function]bool{}
	for _, f := range fns {
		all[f] = true
	}
	for _, fn := range fns {
		if fn.Name() == "init" && fn.Parent() == nil {
			continue
		}
		for _, b := range fn.Blocks {
			for _, ins := range b.Instrs {
				var target ssa.Value
				what := ""
				switch x := ins.(type) {
				case *ssa.Store:
					target, what = x.Addr, "store"
				case *ssa.MapUpdate:
					target, what = x.Map, "map-update"
				case *ssa.Call:
					if bi, ok := x.Common().Value.(*ssa.Builtin); ok && (bi.Name() == "copy" || bi.Name() == "append" || bi.Name() == "delete") {
						target, what = x.Common().Args[0], bi.Name()
					}
				}
				if target == nil {
					continue
				}
				if g := globalBehind(target); g != nil {
					n++
					sw.add("sweep/globals/written-outside-init:"+g.Name()+"@"+sw.key(fn), "globals", "package-level variables are written only by the package initializer", false,
						what+" through package variable "+g.Name()+" in "+sw.key(fn)+": "+sw.stmtOf(fn, ins.Pos(), what), ins.Pos())
				}
			}
		}
	}
	sw.add("sweep/globals/no-writes-outside-init", "globals", "no instruction outside the package initializer writes a package-level variable or a container stored in one", n == 0, fmt.Sprintf("%d write sites", n), token.NoPos)
}

// globalBehind follows address computations and loads back to a package-level variable.
func globalBehind(v ssa.Value) *ssa.Global {
	for i := 0; i < 16; i++ {
		switch x := v.(type) {
		case *ssa.Global:
			return x
		case *ssa.FieldAddr:
			v = x.X
		case *ssa.IndexAddr:
			v = x.X
		case *ssa.Slice:
			v = x.X
		case *ssa.ChangeType:
			v = x.X
		case *ssa.UnOp:
			if x.Op != token.MUL {
				return nil
			}
			v = x.X
		default:
			return nil
		}
	}
	return nil
}

// ---------------------------------------------------------------- determinism (C07, C08)

func (sw *sweeper) determinism(a Analysis) {
	set, missing := sw.reach(a)
	tag := "sweep/determinism:" + a.Name
	for _, m := range missing {
		sw.add(tag+"/root-exists:"+m, "determinism", "root exists", false, "no such function: "+m, token.NoPos)
	}
	allowed := map[string]bool{}
	for _, k := range a.AllowedIn {
		allowed[k] = true
	}
	n := 0
	for _, fn := range sortedFuncs(sw, set) {
		k := sw.key(fn)
		for _, b := range fn.Blocks {
			for _, ins := range b.Instrs {
				switch x := ins.(type) {
				case *ssa.Range:
					if _, isMap := x.X.Type().Underlying().(*types.Map); isMap {
						n++
						sw.add(tag+"/"+k+"/map-range:"+sw.stmtOf(fn, x.Pos(), "range"), "determinism",
							"map iteration only where a loop contract proves order-independence", allowed[k], "map iteration (order is nondeterministic) in "+k, x.Pos())
					}
				case *ssa.Select, *ssa.Go:
					n++
					sw.add(tag+"/"+k+"/"+fmt.Sprintf("%T", ins), "determinism", "no select / goroutine", false, "found", ins.Pos())
				case *ssa.Call:
					if sc := x.Common().StaticCallee(); sc != nil {
						name := sc.String()
						if strings.HasPrefix(name, "time.Now") || strings.HasPrefix(name, "math/rand.") || strings.HasPrefix(name, "time.Since") || strings.HasPrefix(name, "os.") {
							n++
							sw.add(tag+"/"+k+"/ambient:"+name, "determinism", "no ambient time / randomness / environment", false, name, x.Pos())
						}
					}
				}
			}
		}
	}
	sw.add(tag+"/inventory", "determinism", fmt.Sprintf("%d functions reachable; %d order/ambient-sensitive sites examined", len(set), n), len(set) > 0 && len(missing) == 0, "empty", token.NoPos)
}

// ---------------------------------------------------------------- dynamic calls of operator values (C10)

func (sw *sweeper) dyncalls(a Analysis) {
	set, missing := sw.reach(a)
	tag := "sweep/dyncalls:" + a.Name
	for _, m := range missing {
		sw.add(tag+"/root-exists:"+m, "dyncalls", "root exists", false, "no such function: "+m, token.NoPos)
	}
	expect := map[string]int{}
	for _, k := range a.ExpectIn {
		expect[k] = 0
	}
	isWanted := func(t types.Type) bool {
		for _, n := range a.CallTypes {
			if named, ok := t.(*types.Named); ok && named.Obj().Name() == n {
				return true
			}
		}
		// same signature as Operator
		if opT := sw.p.SSA.Type("Operator"); opT != nil {
			return types.Identical(t.Underlying(), opT.Type().Underlying())
		}
		return false
	}
	for _, fn := range sortedFuncs(sw, set) {
		k := sw.key(fn)
		for _, b := range fn.Blocks {
			for _, ins := range b.Instrs {
				call, ok := ins.(*ssa.Call)
				if !ok {
					continue
				}
				com := call.Common()
				if com.IsInvoke() || com.StaticCallee() != nil {
					continue
				}
				if _, isB := com.Value.(*ssa.Builtin); isB {
					continue
				}
				if !isWanted(com.Value.Type()) {
					continue
				}
				_, exp := expect[k]
				if exp {
					expect[k]++
				}
				sw.add(tag+"/"+k+"/operator-call:"+sw.stmtOf(fn, call.Pos(), "call"), "dyncalls",
					"operator values are invoked at compile time only at the expected, guarded site", exp, "unexpected invocation of an operator value during Compile in "+k, call.Pos())
			}
		}
	}
	for _, k := range a.ExpectIn {
		sw.add(tag+"/expected-site:"+k, "dyncalls", "the guarded call site exists", expect[k] >= 1, "no operator call found in "+k, token.NoPos)
	}
}

// ---------------------------------------------------------------- reads of position/source fields (C14)

func (sw *sweeper) reads(a Analysis) {
	set, missing := sw.reach(a)
	tag := "sweep/reads:" + a.Name
	for _, m := range missing {
		sw.add(tag+"/root-exists:"+m, "reads", "root exists", false, "no such function: "+m, token.NoPos)
	}
	allowed := map[string]bool{}
	for _, k := range a.AllowedIn {
		allowed[k] = true
	}
	want := map[string]bool{}
	for _, f := range a.Fields {
		want[f] = true
	}
	n := 0
	for _, fn := range sortedFuncs(sw, set) {
		k := sw.key(fn)
		for _, b := range fn.Blocks {
			for _, ins := range b.Instrs {
				var stT types.Type
				var field int
				read := false
				switch x := ins.(type) {
				case *ssa.FieldAddr:
					stT, field = x.X.Type().Underlying().(*types.Pointer).Elem(), x.Field
					// only loads count (a store of pos/source is not a read)
					if x.Referrers() != nil {
						for _, r := range *x.Referrers() {
							if u, ok := r.(*ssa.UnOp); ok && u.Op == token.MUL {
								read = true
							}
						}
					}
				case *ssa.Field:
					stT, field, read = x.X.Type(), x.Field, true
				default:
					continue
				}
				named, ok := stT.(*types.Named)
				if !ok {
					continue
				}
				st, ok := stT.Underlying().(*types.Struct)
				if !ok {
					continue
				}
				fname := named.Obj().Name() + "." + st.Field(field).Name()
				if !want[fname] || !read {
					continue
				}
				n++
				ok = allowed[k]
				if !ok {
					// a read outside the error constructors is fine when the value only flows into their arguments
					ok = sw.flowsOnlyInto(ins.(ssa.Value), allowed, 0)
				}
				sw.add(tag+"/"+k+"/read:"+fname, "reads", "source text and token positions are read only to construct error values", ok, fname+" read in "+k+" and used outside error construction", ins.Pos())
			}
		}
	}
	// the functions allowed to read them only produce strings/errors
	for _, k := range a.AllowedIn {
		fn := sw.p.Lookup(k)
		if fn == nil {
			continue
		}
		ok := true
		res := fn.Signature.Results()
		for i := 0; i < res.Len(); i++ {
			t := res.At(i).Type().String()
			if t != "error" && t != "string" {
				ok = false
			}
		}
		sw.add(tag+"/error-only-result:"+k, "reads", "function allowed to read positions returns only error/string values", ok, "returns other values", token.NoPos)
	}
	sw.add(tag+"/inventory", "reads", fmt.Sprintf("%d functions reachable, %d reads examined", len(set), n), len(set) > 0 && len(missing) == 0, "empty", token.NoPos)
}

// ---------------------------------------------------------------- writes to configuration containers (C08)

// accessPath renders how a container value is reached: e.g. "param#0.ConstantMap" (parameters by position), "param#0.conf.CompileOptions", "fresh".
func (sw *sweeper) accessPath(v ssa.Value, fn *ssa.Function, depth int) string {
	if depth == 0 {
		sw.pathVisiting = map[ssa.Value]bool{}
	}
	if depth > 24 {
		return "?"
	}
	if sw.pathVisiting[v] {
		return "cycle" // a value reached again through a phi/append cycle contributes nothing new
	}
	sw.pathVisiting[v] = true
	defer delete(sw.pathVisiting, v)
	switch x := v.(type) {
	case *ssa.Parameter:
		// by position, not by name: renaming a parameter must not change the path (receiver = #0)
		for i, q := range x.Parent().Params {
			if q == x {
				return fmt.Sprintf("param#%d", i)
			}
		}
		return "param:" + x.Name()
	case *ssa.FreeVar:
		return "captured:" + x.Name()
	case *ssa.Global:
		return "global:" + x.Name()
	case *ssa.Alloc:
		return "fresh"
	case *ssa.MakeMap, *ssa.MakeSlice:
		return "fresh"
	case *ssa.FieldAddr:
		st := x.X.Type().Underlying().(*types.Pointer).Elem().Underlying().(*types.Struct)
		return sw.accessPath(x.X, fn, depth+1) + "." + st.Field(x.Field).Name()
	case *ssa.IndexAddr:
		return sw.accessPath(x.X, fn, depth+1) + "[]"
	case *ssa.Slice:
		return sw.accessPath(x.X, fn, depth+1)
	case *ssa.ChangeType:
		return sw.accessPath(x.X, fn, depth+1)
	case *ssa.UnOp:
		if x.Op == token.MUL {
			if a, ok := x.X.(*ssa.Alloc); ok {
				// local variable: what was stored
				var paths []string
				if a.Referrers() != nil {
					for _, r := range *a.Referrers() {
						if s, ok := r.(*ssa.Store); ok && s.Addr == a {
							paths = append(paths, sw.accessPath(s.Val, fn, depth+1))
						}
					}
				}
				sort.Strings(paths)
				return strings.Join(dedupStr(paths), "|")
			}
			return sw.accessPath(x.X, fn, depth+1)
		}
	case *ssa.Phi:
		var paths []string
		for _, e := range x.Edges {
			paths = append(paths, sw.accessPath(e, fn, depth+1))
		}
		sort.Strings(paths)
		return strings.Join(dedupStr(paths), "|")
	case *ssa.Call:
		if bi, ok := x.Common().Value.(*ssa.Builtin); ok && bi.Name() == "append" {
			return sw.accessPath(x.Common().Args[0], fn, depth+1)
		}
		if sc := x.Common().StaticCallee(); sc != nil {
			switch sc.String() {
			case "strings.Split", "strings.Fields", "strings.SplitN":
				return "fresh" // the standard library returns a newly allocated slice
			}
			return "result:" + sw.key(sc)
		}
		return "result:dynamic"
	case *ssa.Extract:
		return sw.accessPath(x.Tuple, fn, depth+1)
	case *ssa.Const:
		return "nil"
	}
	return fmt.Sprintf("?%T", v)
}

func dedupStr(xs []string) []string {
	var out []string
	for i, x := range xs {
		if i == 0 || x != xs[i-1] {
			out = append(out, x)
		}
	}
	return out
}

func (sw *sweeper) configWrites(a Analysis) {
	set, missing := sw.reach(a)
	tag := "sweep/configwrites:" + a.Name
	for _, m := range missing {
		sw.add(tag+"/root-exists:"+m, "configwrites", "root exists", false, "no such function: "+m, token.NoPos)
	}
	var allowed []*regexp.Regexp
	for _, k := range a.AllowedIn {
		allowed = append(allowed, regexp.MustCompile("^"+k+"$"))
	}
	cfgNamed := sw.p.SSA.Type(a.ConfigType)
	if cfgNamed == nil {
		sw.add(tag+"/config-type", "configwrites", "Config type exists", false, "no type "+a.ConfigType, token.NoPos)
		return
	}
	cfgStruct := cfgNamed.Type().Underlying().(*types.Struct)
	// container types that occur in Config
	isConfigContainer := func(t types.Type) bool {
		for i := 0; i < cfgStruct.NumFields(); i++ {
			if types.Identical(cfgStruct.Field(i).Type(), t) {
				return true
			}
		}
		return false
	}
	n := 0
	for _, fn := range sortedFuncs(sw, set) {
		k := sw.key(fn)
		site := func(what string, container ssa.Value, pos token.Pos) {
			n++
			path := sw.accessPath(container, fn, 0)
			ok := true
			for _, alt := range strings.Split(path, "|") {
				if alt == "fresh" || alt == "nil" || alt == "cycle" {
					continue
				}
				m := false
				for _, re := range allowed {
					if re.MatchString(k + ":" + alt) {
						m = true
					}
				}
				if !m {
					ok = false
				}
			}
			sw.add(tag+"/"+k+"/"+what+":"+sw.stmtOf(fn, pos, what), "configwrites",
				"writes to containers of Config types go to a fresh copy (path "+path+")", ok, "container reached through "+path+" in "+k, pos)
		}
		for _, b := range fn.Blocks {
			for _, ins := range b.Instrs {
				switch x := ins.(type) {
				case *ssa.MapUpdate:
					if isConfigContainer(x.Map.Type()) {
						site("map-update", x.Map, x.Pos())
					}
				case *ssa.Store:
					// field of a *Config, or element of a []string that could be StatelessOperators
					if fa, ok := x.Addr.(*ssa.FieldAddr); ok {
						if pt, ok := fa.X.Type().Underlying().(*types.Pointer); ok && types.Identical(pt.Elem(), cfgNamed.Type()) {
							site("config-field-store", fa.X, x.Pos())
							// the container stored into a Config must be fresh or the one already held by that field
							own := sw.accessPath(fa, fn, 0)
							vp := sw.accessPath(x.Val, fn, 0)
							okv := true
							for _, alt := range strings.Split(vp, "|") {
								if alt != "fresh" && alt != "nil" && alt != "cycle" && alt != own {
									okv = false
								}
							}
							n++
							sw.add(tag+"/"+k+"/config-field-value:"+sw.stmtOf(fn, x.Pos(), "store"), "configwrites",
								"a container stored into a Config is freshly allocated (or the field's own, grown by append): configs never share containers", okv, "stores "+vp+" into "+own, x.Pos())
						}
					}
					if ia, ok := x.Addr.(*ssa.IndexAddr); ok {
						if isConfigContainer(ia.X.Type()) {
							site("element-store", ia.X, x.Pos())
						}
					}
				case *ssa.Call:
					if bi, ok := x.Common().Value.(*ssa.Builtin); ok && (bi.Name() == "append" || bi.Name() == "copy" || bi.Name() == "delete") {
						if isConfigContainer(x.Common().Args[0].Type()) {
							site(bi.Name(), x.Common().Args[0], x.Pos())
						}
					}
				}
			}
		}
	}
	// parser.conf is assigned only from CopyConfig(...)
	for _, fn := range sortedFuncs(sw, set) {
		for _, b := range fn.Blocks {
			for _, ins := range b.Instrs {
				st, ok := ins.(*ssa.Store)
				if !ok {
					continue
				}
				fa, ok := st.Addr.(*ssa.FieldAddr)
				if !ok {
					continue
				}
				pt, ok := fa.X.Type().Underlying().(*types.Pointer)
				if !ok {
					continue
				}
				named, ok := pt.Elem().(*types.Named)
				if !ok || named.Obj().Name() != "parser" {
					continue
				}
				if pt.Elem().Underlying().(*types.Struct).Field(fa.Field).Name() != "conf" {
					continue
				}
				path := sw.accessPath(st.Val, fn, 0)
				sw.add(tag+"/parser.conf-assigned-from-CopyConfig@"+sw.key(fn), "configwrites", "the parser's config is always a CopyConfig of the caller's", path == "result:CopyConfig", "assigned from "+path, st.Pos())
			}
		}
	}
	sw.add(tag+"/inventory", "configwrites", fmt.Sprintf("%d functions reachable from Compile, %d container write sites examined", len(set), n), len(set) > 0 && len(missing) == 0 && n > 0, "empty", token.NoPos)
}

// ---------------------------------------------------------------- write set by access path (C16)

// writeset: every write reachable from the roots must match one of the allowed "<kind>:<func>:<access path>" patterns.
func (sw *sweeper) writeset(a Analysis) {
	set, missing := sw.reach(a)
	tag := "sweep/writeset:" + a.Name
	for _, m := range missing {
		sw.add(tag+"/root-exists:"+m, "writeset", "root exists", false, "no such function: "+m, token.NoPos)
	}
	var allowed []*regexp.Regexp
	for _, k := range a.AllowedIn {
		allowed = append(allowed, regexp.MustCompile("^"+k+"$"))
	}
	n := 0
	for _, fn := range sortedFuncs(sw, set) {
		k := sw.key(fn)
		site := func(kind string, v ssa.Value, pos token.Pos) {
			n++
			path := sw.accessPath(v, fn, 0)
			ok := true
			for _, alt := range strings.Split(path, "|") {
				if alt == "fresh" || alt == "nil" || alt == "cycle" {
					continue
				}
				m := false
				for _, re := range allowed {
					if re.MatchString(kind + ":" + k + ":" + alt) {
						m = true
					}
				}
				if !m {
					ok = false
				}
			}
			sw.add(tag+"/"+k+"/"+kind+":"+sw.stmtOf(fn, pos, kind), "writeset", "write is one of the declared ones (path "+path+")", ok, "unexpected write "+kind+" through "+path+" in "+k, pos)
		}
		for _, b := range fn.Blocks {
			for _, ins := range b.Instrs {
				switch x := ins.(type) {
				case *ssa.Store:
					if isLocalCellAddr(x.Addr) {
						continue
					}
					site("store", x.Addr, x.Pos())
				case *ssa.MapUpdate:
					site("map-update", x.Map, x.Pos())
				case *ssa.Call:
					com := x.Common()
					if bi, ok := com.Value.(*ssa.Builtin); ok {
						if bi.Name() == "copy" || bi.Name() == "append" || bi.Name() == "delete" {
							site(bi.Name(), com.Args[0], x.Pos())
						}
						continue
					}
					if sc := com.StaticCallee(); sc != nil && !set[sc] {
						if idx, ok := mutatingExternals[sc.String()]; ok {
							arg := com.Args[idx]
							if mi, ok := arg.(*ssa.MakeInterface); ok {
								arg = mi.X
							}
							site("mutating-call("+sc.String()+")", arg, x.Pos())
						}
					}
				}
			}
		}
	}
	sw.add(tag+"/inventory", "writeset", fmt.Sprintf("%d functions reachable, %d writes examined", len(set), n), len(set) > 0 && len(missing) == 0 && n > 0, "empty", token.NoPos)
}

// guardedcall: every call of Callee inside Func is dominated by the true branch of a test `Guard(...)`.
func (sw *sweeper) guardedcall(a Analysis) {
	tag := "sweep/guardedcall:" + a.Name
	fnKey, _ := a.Extra["func"].(string)
	callee, _ := a.Extra["callee"].(string)
	guard, _ := a.Extra["guard"].(string)
	fn := sw.p.Lookup(fnKey)
	if fn == nil {
		sw.add(tag+"/func-exists", "guardedcall", "function exists", false, "no such function "+fnKey, token.NoPos)
		return
	}
	n := 0
	for _, b := range fn.Blocks {
		for _, ins := range b.Instrs {
			call, ok := ins.(*ssa.Call)
			if !ok {
				continue
			}
			sc := call.Common().StaticCallee()
			if sc == nil || sc.String() != callee {
				continue
			}
			n++
			// walk up the dominator tree: some dominating block ends in `if guard(...)` and we are below its true successor
			ok2 := false
			for d := b; d != nil && !ok2; d = d.Idom() {
				id := d.Idom()
				if id == nil {
					break
				}
				iff, isIf := id.Instrs[len(id.Instrs)-1].(*ssa.If)
				if !isIf {
					continue
				}
				gc, isCall := iff.Cond.(*ssa.Call)
				if !isCall {
					continue
				}
				gsc := gc.Common().StaticCallee()
				if gsc == nil || sw.key(gsc) != guard {
					continue
				}
				// d must be (dominated by) the true successor, which must not be reachable from the false side without the test
				if id.Succs[0] == d && len(d.Preds) == 1 {
					ok2 = true
				}
			}
			sw.add(tag+"/"+fnKey+"/"+callee+":"+sw.stmtOf(fn, call.Pos(), "call"), "guardedcall", "call of "+callee+" is dominated by a successful "+guard+" test", ok2, "not dominated by the true branch of "+guard, call.Pos())
		}
	}
	sw.add(tag+"/site-exists", "guardedcall", "the guarded call site exists", n >= 1, "no call of "+callee+" in "+fnKey, token.NoPos)
}

// callorder: inside Func the calls of the functions listed in Order occur exactly once each and every later one is
// dominated by the earlier one (pipeline order); optionally ("flows": [from, field, to, argIndex]) the argument
// argIndex of the call of `to` is the field `field` of the result of the call of `from`.
func (sw *sweeper) callorder(a Analysis) {
	tag := "sweep/callorder:" + a.Name
	fnKey, _ := a.Extra["func"].(string)
	fn := sw.p.Lookup(fnKey)
	if fn == nil {
		sw.add(tag+"/func-exists", "callorder", "function exists", false, "no such function "+fnKey, token.NoPos)
		return
	}
	var order []string
	if l, ok := a.Extra["order"].([]interface{}); ok {
		for _, x := range l {
			if s, ok := x.(string); ok {
				order = append(order, s)
			}
		}
	}
	sites := map[string][]*ssa.Call{}
	for _, b := range fn.Blocks {
		for _, ins := range b.Instrs {
			if call, ok := ins.(*ssa.Call); ok {
				if sc := call.Common().StaticCallee(); sc != nil {
					sites[sw.key(sc)] = append(sites[sw.key(sc)], call)
				}
			}
		}
	}
	dominates := func(x, y *ssa.Call) bool {
		if x.Block() == y.Block() {
			for _, ins := range x.Block().Instrs {
				if ins == x {
					return true
				}
				if ins == y {
					return false
				}
			}
		}
		return x.Block().Dominates(y.Block())
	}
	for _, k := range order {
		sw.add(tag+"/"+fnKey+"/one-call-of:"+k, "callorder", fnKey+" calls "+k+" exactly once", len(sites[k]) == 1, fmt.Sprintf("%d call sites", len(sites[k])), token.NoPos)
	}
	for i := 0; i+1 < len(order); i++ {
		x, y := sites[order[i]], sites[order[i+1]]
		ok := len(x) == 1 && len(y) == 1 && dominates(x[0], y[0])
		sw.add(tag+"/"+fnKey+"/"+order[i]+"-before-"+order[i+1], "callorder", "every path to the call of "+order[i+1]+" has passed the call of "+order[i], ok, "not dominated", token.NoPos)
	}
	if fl, ok := a.Extra["flows"].([]interface{}); ok && len(fl) == 4 {
		from, _ := fl[0].(string)
		field, _ := fl[1].(string)
		to, _ := fl[2].(string)
		argf, _ := fl[3].(float64)
		ok := false
		if len(sites[from]) == 1 && len(sites[to]) == 1 && int(argf) < len(sites[to][0].Common().Args) {
			arg := sites[to][0].Common().Args[int(argf)]
			// arg must be (a load of) the field of the value returned by the `from` call
			var isField func(v ssa.Value, depth int) bool
			isField = func(v ssa.Value, depth int) bool {
				if depth > 6 {
					return false
				}
				switch x := v.(type) {
				case *ssa.Field:
					st, isSt := x.X.Type().Underlying().(*types.Struct)
					return isSt && st.Field(x.Field).Name() == field && x.X == ssa.Value(sites[from][0])
				case *ssa.UnOp:
					if x.Op == token.MUL {
						if fa, isFA := x.X.(*ssa.FieldAddr); isFA {
							st := fa.X.Type().Underlying().(*types.Pointer).Elem().Underlying().(*types.Struct)
							if st.Field(fa.Field).Name() != field {
								return false
							}
							// the struct cell holds the call result (single store)
							if al, isAl := fa.X.(*ssa.Alloc); isAl && al.Referrers() != nil {
								n, good := 0, false
								for _, r := range *al.Referrers() {
									if st, isStore := r.(*ssa.Store); isStore && st.Addr == al {
										n++
										good = st.Val == ssa.Value(sites[from][0])
									}
								}
								return n == 1 && good
							}
						}
					}
				case *ssa.ChangeType:
					return isField(x.X, depth+1)
				case *ssa.Convert:
					return false
				}
				return false
			}
			ok = isField(arg, 0)
		}
		sw.add(tag+"/"+fnKey+"/"+to+"-gets-"+from+"."+field, "callorder", fmt.Sprintf("argument %d of %s is the %s computed by %s", int(argf), to, field, from), ok, "the argument is something else", token.NoPos)
	}
}

// flowsOnlyInto: every use of v (through loads) is an argument of a call to one of the allowed functions.
func (sw *sweeper) flowsOnlyInto(v ssa.Value, allowed map[string]bool, depth int) bool {
	if depth > 6 || v.Referrers() == nil {
		return false
	}
	for _, r := range *v.Referrers() {
		switch x := r.(type) {
		case *ssa.DebugRef:
		case *ssa.UnOp:
			if x.Op != token.MUL || !sw.flowsOnlyInto(x, allowed, depth+1) {
				return false
			}
		case *ssa.Call:
			sc := x.Common().StaticCallee()
			if sc == nil || !allowed[sw.key(sc)] {
				return false
			}
		default:
			return false
		}
	}
	return true
}
