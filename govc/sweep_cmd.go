package main

import "govc/internal/sweep"

func init() { engines["sweep"] = sweep.Run }
