package bounded

// Relations: what is claimed about one exported program, turned into
// obligations.  Every symbolic relation is "for all paths of the unrolled real
// code: pc => relation", i.e. one query asserting the disjunction of
// (pc and not relation) over the paths.

import (
	"encoding/json"
	"fmt"
	"sort"
	"strings"
	"sync"

	"golang.org/x/tools/go/ssa"

	"govc/internal/core"
)

// Case is one source under one configuration with its exported program.
type Case struct {
	Src  *Src
	Text string
	Job  Job
	Prog *XProg
	Cfg  string
}

// Checker is the state of one engine run.
type Checker struct {
	env      *core.Env
	m        *Machine
	prop     string
	MaxPaths int

	mu       sync.Mutex
	unrolled map[string]*unrollEntry
	values   map[string][]string // obligation name -> get-value terms
	nPaths   int64
	nUnroll  int64
	nCached  int64
}

type unrollEntry struct {
	once sync.Once
	u    *Unrolled
}

// Unrolled is the set of paths of one unrolling of the real code.
type Unrolled struct {
	Paths []PathOut // Out is *RunResult
	Trunc bool
}

func NewChecker(env *core.Env, m *Machine, prop string) *Checker {
	return &Checker{env: env, m: m, prop: prop, MaxPaths: 30000, unrolled: map[string]*unrollEntry{}, values: map[string][]string{}}
}

func (cx *Checker) fn(method string) *ssa.Function {
	if method == "TryEval" {
		return cx.m.TryEval
	}
	return cx.m.Eval
}

func domKey(d *Domain) string { return fmt.Sprintf("b%v.a%v", d.AllBound, d.AllAvail) }

// Unroll enumerates the paths of method on p (cached by program fingerprint).
func (cx *Checker) Unroll(p *XProg, method string, dom *Domain) *Unrolled {
	key := method + "|" + p.FP + "|" + domKey(dom)
	cx.mu.Lock()
	e := cx.unrolled[key]
	if e == nil {
		e = &unrollEntry{}
		cx.unrolled[key] = e
	} else {
		cx.nCached++
	}
	cx.mu.Unlock()
	e.once.Do(func() {
		outs, trunc := EnumeratePaths(dom, cx.MaxPaths, func(r *Path) interface{} {
			return cx.m.Exec(r, cx.fn(method), p, nil)
		})
		e.u = &Unrolled{Paths: outs, Trunc: trunc}
		cx.mu.Lock()
		cx.nPaths += int64(len(outs))
		cx.nUnroll++
		cx.mu.Unlock()
	})
	return e.u
}

// ---------------------------------------------------------------- query assembly

// BuildQuery renders: prelude, list definitions, declarations, domain
// assumptions, named reference definitions, and the assertion (or bad...).
func BuildQuery(dom *Domain, defs *Defs, extra []*T, bad []*T) (text string, values []string) {
	all := append([]*T{}, bad...)
	all = append(all, extra...)
	if defs != nil {
		all = append(all, defs.Bodies()...)
	}
	assume := dom.Assumptions(all...)
	all = append(all, assume...)
	d := NewDecls()
	if defs != nil {
		d.Skip(defs.Names()...)
	}
	d.Add(all...)
	var sb strings.Builder
	sb.WriteString(PreludeSMT)
	sb.WriteString(ListDefs(all...))
	sb.WriteString(d.Text())
	for _, a := range assume {
		sb.WriteString("(assert " + a.String() + ")\n")
	}
	for _, a := range extra {
		sb.WriteString("(assert " + a.String() + ")\n")
	}
	if defs != nil {
		sb.WriteString(defs.Text())
	}
	sb.WriteString("(assert (or false")
	for _, b := range bad {
		sb.WriteString("\n  " + b.String())
	}
	sb.WriteString("))\n")
	// model terms: every oracle constant, every custom application with its arguments
	seen := map[string]bool{}
	addv := func(t *T) {
		if !seen[t.String()] {
			seen[t.String()] = true
			values = append(values, t.String())
		}
	}
	for _, x := range Apps([]string{"gv_", "ge_", "gw_", "gwe_", "av_", "aw_", "cv_", "ce_"}, all...) {
		addv(x)
		if strings.HasPrefix(x.Op, "cv_") {
			addv(errSymFor(x))
		}
		for _, a := range x.Args {
			addv(a)
		}
	}
	if defs != nil {
		for _, n := range defs.names {
			if !strings.Contains(n, "!") {
				addv(Sym(n, defs.body[n].Sort))
			}
		}
	}
	return sb.String(), values
}

func oblName(rel, cfg, src string) string { return "bnd/" + rel + "/" + cfg + "/" + src }

func (cx *Checker) newObl(rel string, c *Case) *core.Obl {
	spec := ReplaySpec{Rel: rel, Src: c.Text, Mask: c.Job.Mask, Ev: c.Job.Ev, Costs: c.Job.Costs, Undef: c.Job.Undef}
	b, _ := json.Marshal(spec)
	return &core.Obl{
		Name: oblName(rel, c.Cfg, c.Text), Func: c.Text, Kind: "bounded:" + rel, Tier: core.Bounded,
		ReplayKind: "bounded", ReplayData: map[string]string{"spec": string(b)},
	}
}

func discharge(o *core.Obl, how string) *core.Obl {
	o.Status = core.Discharged
	o.Solver = how
	return o
}

// pathObl builds the obligation "no path satisfies bad(path)".
func (cx *Checker) pathObl(rel string, c *Case, dom *Domain, defs *Defs, extra []*T, un *Unrolled, bad func(pc *T, rr *RunResult) *T) *core.Obl {
	o := cx.newObl(rel, c)
	if un.Trunc {
		o.Status = core.Unknown
		o.Output = fmt.Sprintf("path limit (%d) reached: the program is not covered", cx.MaxPaths)
		return o
	}
	var bads []*T
	for _, p := range un.Paths {
		rr := p.Out.(*RunResult)
		b := bad(And(p.PC...), rr)
		if b == nil || b.IsFalse() {
			continue
		}
		bads = append(bads, b)
	}
	o.Detail = fmt.Sprintf("%d paths, %d nodes", len(un.Paths), len(c.Prog.Nodes))
	if len(bads) == 0 {
		return discharge(o, "syntactic")
	}
	o.Query, _ = cx.setQuery(o, dom, defs, extra, bads)
	return o
}

func (cx *Checker) setQuery(o *core.Obl, dom *Domain, defs *Defs, extra []*T, bads []*T) (string, []string) {
	q, vals := BuildQuery(dom, defs, extra, bads)
	cx.mu.Lock()
	cx.values[o.Name] = vals
	cx.mu.Unlock()
	o.Query = q
	return q, vals
}

// ---------------------------------------------------------------- concrete obligations from the driver

// CompileObl: every source of the family compiles (no error, no panic).
func (cx *Checker) CompileObl(c *Case) *core.Obl {
	o := cx.newObl("compile", c)
	switch {
	case c.Prog == nil:
		o.Status = core.Unknown
		o.Output = "driver returned no program"
	case c.Prog.Panic != "":
		o.Status = core.Refuted
		o.Detail = "panic: " + c.Prog.Panic
		o.Witness = fmt.Sprintf("src=%s cfg=%s: %s", c.Text, c.Cfg, c.Prog.Panic)
	case c.Prog.Err != "":
		o.Status = core.Refuted
		o.Detail = "compile error: " + c.Prog.Err
		o.Witness = fmt.Sprintf("src=%s cfg=%s: Compile returned %q", c.Text, c.Cfg, c.Prog.Err)
	default:
		discharge(o, "driver")
	}
	return o
}

// WFObl: the WF predicate of DESIGN 4.1, evaluated by the driver.
func (cx *Checker) WFObl(c *Case) *core.Obl {
	o := cx.newObl("wf", c)
	if len(c.Prog.WF) > 0 {
		o.Status = core.Refuted
		o.Detail = strings.Join(c.Prog.WF, "; ")
		o.Witness = fmt.Sprintf("src=%s cfg=%s: WF violated: %s", c.Text, c.Cfg, o.Detail)
		return o
	}
	return discharge(o, "driver")
}

// ---------------------------------------------------------------- safety / unwind (any unrolling)

func (cx *Checker) SafetyObls(c *Case, method string, dom *Domain, un *Unrolled) []*core.Obl {
	suffix := ""
	if method == "TryEval" {
		suffix = ".try"
	}
	safety := cx.pathObl("safety"+suffix, c, dom, nil, nil, un, func(pc *T, rr *RunResult) *T {
		if rr.Panic != "" || rr.Engine != "" {
			return pc
		}
		return nil
	})
	for _, p := range un.Paths {
		rr := p.Out.(*RunResult)
		if rr.Panic != "" {
			safety.Detail += "; panic path: " + rr.Panic
			break
		}
		if rr.Engine != "" {
			safety.Detail += "; engine limitation: " + rr.Engine
			break
		}
	}
	unw := cx.pathObl("unwind"+suffix, c, dom, nil, nil, un, func(pc *T, rr *RunResult) *T {
		if rr.Unwind {
			return pc
		}
		return nil
	})
	if unw.Status != core.Discharged {
		unw.Detail += "; unwinding assertion: more than len(nodes)+1 loop heads on some path"
	}
	cx.setMethod(safety, method)
	cx.setMethod(unw, method)
	return []*core.Obl{safety, unw}
}

func (cx *Checker) setMethod(o *core.Obl, method string) {
	var spec ReplaySpec
	json.Unmarshal([]byte(o.ReplayData["spec"]), &spec)
	spec.Method = method
	b, _ := json.Marshal(spec)
	o.ReplayData["spec"] = string(b)
}

// ---------------------------------------------------------------- P1: eval=LR

// EvalLR: Eval(P) = LR(src): same error identity, and the same value when LR succeeds.
func (cx *Checker) EvalLR(c *Case) []*core.Obl {
	dom := &Domain{}
	un := cx.Unroll(c.Prog, "Eval", dom)
	defs := NewDefs()
	rf := NewRef(nil, defs)
	lv, le := rf.LR(c.Src)
	LRv, LRe := defs.Define("LRv", lv), defs.Define("LRe", le)
	o := cx.pathObl("eval=LR", c, dom, defs, nil, un, func(pc *T, rr *RunResult) *T {
		if !rr.Returned() {
			return nil // safety / unwind obligations cover these paths
		}
		rel := And(Eq(rr.E, LRe), Implies(IsENil(LRe), Eq(rr.V, LRv)))
		return And(pc, Not(rel))
	})
	cx.setMethod(o, "Eval")
	return append([]*core.Obl{o}, cx.SafetyObls(c, "Eval", dom, un)...)
}

// ---------------------------------------------------------------- P2: C02

// DirectiveObl: the program compiled from the options map and the one compiled
// from the equivalent leading ";;;; k:v, ..." directive are identical node for node.
func (cx *Checker) DirectiveObl(c *Case, dir *XProg) *core.Obl {
	o := cx.newObl("directive=options", c)
	switch {
	case dir == nil:
		o.Status = core.Unknown
		o.Output = "no directive-form program"
	case !dir.OK():
		o.Status = core.Refuted
		o.Detail = "directive form does not compile: " + dir.Err + dir.Panic
		o.Witness = fmt.Sprintf("src=%s cfg=%s: options compile, directive form fails: %s%s", c.Text, c.Cfg, dir.Err, dir.Panic)
	case dir.FP != c.Prog.FP || dir.Dump != c.Prog.Dump:
		o.Status = core.Refuted
		o.Detail = "programs differ"
		o.Witness = fmt.Sprintf("src=%s cfg=%s: options map gives %s, directive gives %s", c.Text, c.Cfg, oneLine(c.Prog.Dump), oneLine(dir.Dump))
	default:
		discharge(o, "driver")
	}
	return o
}

func oneLine(s string) string { return strings.Join(strings.Fields(s), " ") }

// C02: for the program compiled under the case's optimisation subset, every
// variable bound:
//   U-if-value : Eval(P_c) is a value  =>  U(src) is defined and equal
//   U-if-AllOK : AllOK(src)            =>  Eval(P_c) = U(src)
//   LR-if-value: Reordering off and LR(src) is a value => Eval(P_c) = LR(src)
func (cx *Checker) C02(c *Case, rels []string) []*core.Obl {
	dom := &Domain{AllBound: true}
	un := cx.Unroll(c.Prog, "Eval", dom)
	var out []*core.Obl
	for _, rel := range rels {
		defs := NewDefs()
		rf := NewRef(nil, defs)
		var o *core.Obl
		switch rel {
		case "U-if-value":
			uv, ud := rf.U(c.Src)
			Uv, Ud := defs.Define("Uv", uv), defs.Define("Ud", ud)
			o = cx.pathObl(rel, c, dom, defs, nil, un, func(pc *T, rr *RunResult) *T {
				if !rr.Returned() {
					return nil
				}
				return And(pc, IsENil(rr.E), Not(And(Ud, Eq(rr.V, Uv))))
			})
		case "U-if-AllOK":
			uv, _ := rf.U(c.Src)
			Uv, OK := defs.Define("Uv", uv), defs.Define("AllOK", rf.AllOK(c.Src))
			o = cx.pathObl(rel, c, dom, defs, nil, un, func(pc *T, rr *RunResult) *T {
				if !rr.Returned() {
					return nil
				}
				return And(pc, OK, Not(And(IsENil(rr.E), Eq(rr.V, Uv))))
			})
		case "LR-if-value":
			if c.Job.Mask&8 != 0 {
				continue
			}
			lv, le := rf.LR(c.Src)
			LRv, LRe := defs.Define("LRv", lv), defs.Define("LRe", le)
			o = cx.pathObl(rel, c, dom, defs, nil, un, func(pc *T, rr *RunResult) *T {
				if !rr.Returned() {
					return nil
				}
				return And(pc, IsENil(LRe), Not(And(IsENil(rr.E), Eq(rr.V, LRv))))
			})
		}
		cx.setMethod(o, "Eval")
		out = append(out, o)
	}
	return append(out, cx.SafetyObls(c, "Eval", dom, un)...)
}

// ---------------------------------------------------------------- helpers

func sortedKeys(m map[string]bool) []string {
	var k []string
	for x := range m {
		k = append(k, x)
	}
	sort.Strings(k)
	return k
}
