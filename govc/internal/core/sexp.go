package core

import (
	"fmt"
	"strings"
)

// Sexp is an S-expression: an atom or a list.
type Sexp struct {
	Atom string
	List []*Sexp
	// IsList distinguishes "()" from an empty atom.
	IsList bool
}

func A(s string) *Sexp       { return &Sexp{Atom: s} }
func L(xs ...*Sexp) *Sexp    { return &Sexp{List: xs, IsList: true} }
func (s *Sexp) IsAtom() bool { return !s.IsList }
func (s *Sexp) Head() string {
	if s.IsList && len(s.List) > 0 && s.List[0].IsAtom() {
		return s.List[0].Atom
	}
	return ""
}

func (s *Sexp) String() string {
	if s == nil {
		return "<nil>"
	}
	if !s.IsList {
		return s.Atom
	}
	var sb strings.Builder
	sb.WriteByte('(')
	for i, x := range s.List {
		if i > 0 {
			sb.WriteByte(' ')
		}
		sb.WriteString(x.String())
	}
	sb.WriteByte(')')
	return sb.String()
}

// ParseSexp parses the first S-expression of s and returns the rest.
func ParseSexp(s string) (*Sexp, string, error) {
	i := skipWS(s, 0)
	if i >= len(s) {
		return nil, "", nil
	}
	x, j, err := parseAt(s, i)
	if err != nil {
		return nil, "", err
	}
	return x, s[j:], nil
}

// ParseAll parses every S-expression in s.
func ParseAll(s string) ([]*Sexp, error) {
	var out []*Sexp
	for {
		x, rest, err := ParseSexp(s)
		if err != nil {
			return nil, err
		}
		if x == nil {
			return out, nil
		}
		out = append(out, x)
		s = rest
	}
}

func skipWS(s string, i int) int {
	for i < len(s) {
		c := s[i]
		if c == ' ' || c == '\t' || c == '\n' || c == '\r' {
			i++
			continue
		}
		if c == ';' { // comment to end of line
			for i < len(s) && s[i] != '\n' {
				i++
			}
			continue
		}
		break
	}
	return i
}

func parseAt(s string, i int) (*Sexp, int, error) {
	if s[i] == '(' {
		i++
		l := &Sexp{IsList: true}
		for {
			i = skipWS(s, i)
			if i >= len(s) {
				return nil, i, fmt.Errorf("unclosed parenthesis")
			}
			if s[i] == ')' {
				return l, i + 1, nil
			}
			x, j, err := parseAt(s, i)
			if err != nil {
				return nil, j, err
			}
			l.List = append(l.List, x)
			i = j
		}
	}
	if s[i] == ')' {
		return nil, i, fmt.Errorf("unexpected )")
	}
	j := i
	if s[i] == '"' { // string literal
		j++
		for j < len(s) && s[j] != '"' {
			j++
		}
		if j >= len(s) {
			return nil, j, fmt.Errorf("unclosed string")
		}
		return &Sexp{Atom: s[i : j+1]}, j + 1, nil
	}
	if s[i] == '|' { // quoted symbol
		j++
		for j < len(s) && s[j] != '|' {
			j++
		}
		if j >= len(s) {
			return nil, j, fmt.Errorf("unclosed |symbol|")
		}
		return &Sexp{Atom: s[i : j+1]}, j + 1, nil
	}
	for j < len(s) {
		c := s[j]
		if c == ' ' || c == '\t' || c == '\n' || c == '\r' || c == '(' || c == ')' || c == ';' {
			break
		}
		j++
	}
	return &Sexp{Atom: s[i:j]}, j, nil
}

// Map rewrites bottom-up: f is applied to every node after its children.
func (s *Sexp) Map(f func(*Sexp) *Sexp) *Sexp {
	if !s.IsList {
		return f(s)
	}
	n := &Sexp{IsList: true, List: make([]*Sexp, len(s.List))}
	for i, x := range s.List {
		n.List[i] = x.Map(f)
	}
	return f(n)
}
