package main

import "govc/internal/bounded"

func init() {
	engines["bounded"] = bounded.Run
	replayers["bounded"] = bounded.Replay
}
