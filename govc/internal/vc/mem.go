package vc

import (
	"fmt"
	"go/types"
	"sort"
	"strings"
)

// Term is the translation of an SSA value.
type Term struct {
	S     string     // SMT term (empty for tuples / pure locations)
	T     types.Type // Go type
	Tuple []*Term    // tuple components
	Loc   *Loc       // pointer values: the location pointed to (nil = plain address in S)
	Clo   *Closure   // statically known function value
}

type Closure struct {
	Fn       interface{} // *ssa.Function
	Bindings []*Term
}

// Loc is a memory location: a leaf-or-struct cell addressed by a base array
// name and zero, one or two indices (see DESIGN 2.1: component heap).
type Loc struct {
	base  string   // base name; struct leaves append ".<field>"
	idx   []string // 0: local scalar, 1: object address (or local array index), 2: (array id, element index)
	typ   types.Type
	local bool // base belongs to one activation (non-escaping Alloc)
}

// state is the symbolic machine state at a program point.
type state struct {
	cur  string            // reachability condition (SMT Bool term)
	heap map[string]string // base -> current version (SMT constant); absent = entry version
}

func (s *state) clone() *state {
	n := &state{cur: s.cur, heap: make(map[string]string, len(s.heap))}
	for k, v := range s.heap {
		n.heap[k] = v
	}
	return n
}

type baseInfo struct {
	sort  string // full SMT sort of the base constant
	nidx  int
	leaf  string // leaf sort
	local bool
}

func arraySort(leaf string, nidx int) string {
	s := leaf
	for i := 0; i < nidx; i++ {
		s = "(Array Int " + s + ")"
	}
	return s
}

// base returns the current version of a base in st, declaring it on first use.
func (g *Gen) base(st *state, name, leaf string, nidx int, local bool) string {
	bi, ok := g.bases[name]
	if !ok {
		bi = &baseInfo{sort: arraySort(leaf, nidx), nidx: nidx, leaf: leaf, local: local}
		g.bases[name] = bi
		g.declare(name+"!0", bi.sort)
		g.baseOrder = append(g.baseOrder, name)
	}
	if v, ok := st.heap[name]; ok {
		return v
	}
	return name + "!0"
}

func (g *Gen) newVersion(st *state, name string) string {
	bi := g.bases[name]
	g.nver++
	v := fmt.Sprintf("%s!%d", name, g.nver)
	g.declare(v, bi.sort)
	st.heap[name] = v
	return v
}

func (g *Gen) zero(t types.Type) string {
	switch x := t.Underlying().(type) {
	case *types.Struct:
		d := g.U.structInfo(t)
		if x.NumFields() == 0 {
			return "mk_" + d.name
		}
		var parts []string
		for i := 0; i < x.NumFields(); i++ {
			parts = append(parts, g.zero(x.Field(i).Type()))
		}
		return "(mk_" + d.name + " " + strings.Join(parts, " ") + ")"
	}
	switch g.U.sortOf(t) {
	case "Int":
		return "0"
	case "Bool":
		return "false"
	case "Real":
		return "0.0"
	case "Val":
		return "VNil"
	case "Err":
		return "ENil"
	case "Slice":
		return "nilslice"
	}
	return "0"
}

// leaves enumerates the leaf (non-struct) components of type t below base name.
type leaf struct {
	name string
	typ  types.Type
	path []int
}

func (g *Gen) leaves(base string, t types.Type) []leaf {
	if st, ok := t.Underlying().(*types.Struct); ok {
		var out []leaf
		for i := 0; i < st.NumFields(); i++ {
			f := st.Field(i)
			sub := g.leaves(base+"."+sanitizeField(f.Name(), i), f.Type())
			for _, l := range sub {
				l.path = append([]int{i}, l.path...)
				out = append(out, l)
			}
		}
		return out
	}
	return []leaf{{name: base, typ: t}}
}

func sel(arr string, idx []string) string {
	s := arr
	for _, i := range idx {
		s = "(select " + s + " " + i + ")"
	}
	return s
}

func storeAt(arr string, idx []string, v string) string {
	switch len(idx) {
	case 0:
		return v
	case 1:
		return "(store " + arr + " " + idx[0] + " " + v + ")"
	default:
		return "(store " + arr + " " + idx[0] + " " + storeAt("(select "+arr+" "+idx[0]+")", idx[1:], v) + ")"
	}
}

func (g *Gen) leafSort(t types.Type) string {
	s := g.U.sortOf(t)
	if s == "" {
		s = "Int"
	}
	return s
}

// load reads the value at loc in state st.
func (g *Gen) load(st *state, l *Loc) *Term {
	t := l.typ
	if sty, ok := t.Underlying().(*types.Struct); ok {
		d := g.U.structInfo(t)
		if sty.NumFields() == 0 {
			return &Term{S: "mk_" + d.name, T: t}
		}
		var parts []string
		for i := 0; i < sty.NumFields(); i++ {
			f := sty.Field(i)
			sub := &Loc{base: l.base + "." + sanitizeField(f.Name(), i), idx: l.idx, typ: f.Type(), local: l.local}
			parts = append(parts, g.load(st, sub).S)
		}
		return &Term{S: "(mk_" + d.name + " " + strings.Join(parts, " ") + ")", T: t}
	}
	if at, ok := t.Underlying().(*types.Array); ok {
		as := g.U.sortOf(t)
		if as == "" {
			g.rejectf("load of a whole array of %s", at.Elem())
			return &Term{S: "0", T: t}
		}
		// the array object is one level above its elements in the element heap
		b := g.base(st, l.base, g.leafSort(at.Elem()), len(l.idx)+1, l.local)
		return &Term{S: sel(b, l.idx), T: t}
	}
	b := g.base(st, l.base, g.leafSort(t), len(l.idx), l.local)
	r := &Term{S: sel(b, l.idx), T: t}
	if c, ok := g.cellClo[l.base]; ok && len(l.idx) == 0 {
		r.Clo = c
	}
	return r
}

// store writes v at loc.
func (g *Gen) store(st *state, l *Loc, v *Term) {
	t := l.typ
	if sty, ok := t.Underlying().(*types.Struct); ok {
		d := g.U.structInfo(t)
		for i := 0; i < sty.NumFields(); i++ {
			f := sty.Field(i)
			sub := &Loc{base: l.base + "." + sanitizeField(f.Name(), i), idx: l.idx, typ: f.Type(), local: l.local}
			g.store(st, sub, &Term{S: "(" + d.fnames[i] + " " + v.S + ")", T: f.Type()})
		}
		return
	}
	old := g.base(st, l.base, g.leafSort(t), len(l.idx), l.local)
	nv := g.newVersion(st, l.base)
	g.assert("(= " + nv + " " + storeAt(old, l.idx, v.S) + ")")
}

// zeroObject initialises every leaf of a fresh heap object of type t at address a.
func (g *Gen) zeroObject(st *state, base string, idx []string, t types.Type, local bool) {
	for _, lf := range g.leaves(base, t) {
		l := &Loc{base: lf.name, idx: idx, typ: lf.typ, local: local}
		if at, ok := lf.typ.Underlying().(*types.Array); ok {
			// array leaf: element heap, all zero
			eb := lf.name
			for _, el := range g.leaves(eb, at.Elem()) {
				old := g.base(st, el.name, g.leafSort(el.typ), len(idx)+1, local)
				nv := g.newVersion(st, el.name)
				g.assert("(= " + nv + " " + storeAt(old, idx, "((as const (Array Int "+g.leafSort(el.typ)+")) "+g.zero(el.typ)+")") + ")")
			}
			continue
		}
		g.store(st, l, &Term{S: g.zero(lf.typ), T: lf.typ})
	}
}

// alloc takes a fresh address.
func (g *Gen) allocAddr(st *state) string {
	cur := g.base(st, "next", "Int", 0, false)
	nv := g.newVersion(st, "next")
	g.assert("(= " + nv + " (+ " + cur + " 1))")
	return cur
}

// locOfPointer computes the location a pointer term designates.
func (g *Gen) locOfPointer(p *Term) *Loc {
	if p.Loc != nil {
		return p.Loc
	}
	pt, ok := p.T.Underlying().(*types.Pointer)
	if !ok {
		g.rejectf("dereference of non-pointer %s", p.T)
		return &Loc{base: "C_bad", idx: []string{p.S}, typ: types.Typ[types.Int]}
	}
	el := pt.Elem()
	switch x := el.Underlying().(type) {
	case *types.Struct:
		return &Loc{base: "F_" + typeKey(el), idx: []string{p.S}, typ: el}
	case *types.Array:
		return &Loc{base: "E_" + typeKey(x.Elem()), idx: []string{p.S}, typ: el}
	}
	return &Loc{base: "C_" + typeKey(el), idx: []string{p.S}, typ: el}
}

// mergeStates joins the states of several incoming edges.
func (g *Gen) mergeStates(conds []string, sts []*state, cur string) *state {
	out := &state{cur: cur, heap: map[string]string{}}
	keys := map[string]bool{}
	for _, s := range sts {
		for k := range s.heap {
			keys[k] = true
		}
	}
	var ks []string
	for k := range keys {
		ks = append(ks, k)
	}
	sort.Strings(ks)
	for _, k := range ks {
		vals := make([]string, len(sts))
		same := true
		for i, s := range sts {
			v, ok := s.heap[k]
			if !ok {
				v = k + "!0"
			}
			vals[i] = v
			if v != vals[0] {
				same = false
			}
		}
		if same {
			if vals[0] != k+"!0" {
				out.heap[k] = vals[0]
			}
			continue
		}
		nv := g.newVersion(out, k)
		t := vals[len(vals)-1]
		for i := len(vals) - 2; i >= 0; i-- {
			t = "(ite " + conds[i] + " " + vals[i] + " " + t + ")"
		}
		g.assert("(= " + nv + " " + t + ")")
	}
	return out
}
