package vc

import (
	"encoding/json"
	"go/types"
	"os"
	"path/filepath"
	"sort"

	"golang.org/x/tools/go/ssa"
)

// Renamed locals must not detach a contract (DESIGN 14.8).  Contracts name source-level variables ($osTop, $curt,
// $strs ...).  claims/names.json records, for every function under contract on the reference tree, the ordered list of
// its source-level variables (name, type) by first appearance in the SSA (receiver, parameters, captured variables,
// then phis / address-taken locals / debug references in block order).  At check time the recorded list is aligned
// with the current one; a recorded name that no longer exists is mapped to the new name standing at the same
// position with the same type.  Any other difference (variables added or removed around it, types changed) gives no
// mapping and the contract detaches as before.

type nameEntry struct {
	Name string `json:"n"`
	Type string `json:"t"`
}

// Skeleton lists the source-level variables of fn by first appearance.
func Skeleton(fn *ssa.Function) []nameEntry {
	var out []nameEntry
	seen := map[string]bool{}
	add := func(n string, t types.Type) {
		if n == "" || n == "_" || seen[n] {
			return
		}
		seen[n] = true
		ts := ""
		if t != nil {
			ts = types.TypeString(t, func(*types.Package) string { return "" })
		}
		out = append(out, nameEntry{n, ts})
	}
	for _, p := range fn.Params {
		add(p.Name(), p.Type())
	}
	for _, fv := range fn.FreeVars {
		add(fv.Name(), fv.Type())
	}
	for _, b := range fn.Blocks {
		for _, ins := range b.Instrs {
			switch x := ins.(type) {
			case *ssa.Phi:
				add(x.Comment, x.Type())
			case *ssa.Alloc:
				add(x.Comment, x.Type())
			case *ssa.DebugRef:
				if obj, ok := x.Object().(*types.Var); ok && !obj.IsField() {
					add(obj.Name(), obj.Type())
				}
			}
		}
	}
	return out
}

func namesFile(verif string) string { return filepath.Join(verif, "claims", "names.json") }

// WriteNames records the skeleton of every function that has a contract (reference tree).
func (e *Engine) WriteNames() (int, error) {
	m := map[string][]nameEntry{}
	for key := range e.Spec.Contracts {
		if fn := e.P.Lookup(key); fn != nil {
			m[key] = Skeleton(fn)
		}
	}
	keys := make([]string, 0, len(m))
	for k := range m {
		keys = append(keys, k)
	}
	sort.Strings(keys)
	// stable output
	type kv struct {
		Key   string      `json:"func"`
		Names []nameEntry `json:"names"`
	}
	var out []kv
	for _, k := range keys {
		out = append(out, kv{k, m[k]})
	}
	b, _ := json.MarshalIndent(out, "", " ")
	return len(out), os.WriteFile(namesFile(e.Env.Verif), b, 0o644)
}

func (e *Engine) loadNames() {
	e.refNames = map[string][]nameEntry{}
	b, err := os.ReadFile(namesFile(e.Env.Verif))
	if err != nil {
		return
	}
	var in []struct {
		Key   string      `json:"func"`
		Names []nameEntry `json:"names"`
	}
	if json.Unmarshal(b, &in) != nil {
		return
	}
	for _, x := range in {
		e.refNames[x.Key] = x.Names
	}
}

// renameFor maps recorded variable names of the function key to their current names (only names that vanished).
func (e *Engine) renameFor(key string, fn *ssa.Function) map[string]string {
	if e.refNames == nil {
		e.loadNames()
	}
	if m, ok := e.renames[key]; ok {
		return m
	}
	if e.renames == nil {
		e.renames = map[string]map[string]string{}
	}
	m := alignNames(e.refNames[key], Skeleton(fn))
	e.renames[key] = m
	if len(m) > 0 {
		var ps []string
		for o, n := range m {
			ps = append(ps, o+"->"+n)
		}
		sort.Strings(ps)
		e.assumed["renamed locals of "+key+" matched by position and type against claims/names.json: "+joinComma(ps)] = true
	}
	return m
}

func joinComma(a []string) string {
	s := ""
	for i, x := range a {
		if i > 0 {
			s += ", "
		}
		s += x
	}
	return s
}

// alignNames: LCS over identical (name,type) entries; inside a gap of equal length with pairwise equal types the old
// names map to the new ones.
func alignNames(old, cur []nameEntry) map[string]string {
	m := map[string]string{}
	if len(old) == 0 || len(cur) == 0 {
		return m
	}
	n, k := len(old), len(cur)
	L := make([][]int, n+1)
	for i := range L {
		L[i] = make([]int, k+1)
	}
	for i := n - 1; i >= 0; i-- {
		for j := k - 1; j >= 0; j-- {
			if old[i] == cur[j] {
				L[i][j] = L[i+1][j+1] + 1
			} else if L[i+1][j] >= L[i][j+1] {
				L[i][j] = L[i+1][j]
			} else {
				L[i][j] = L[i][j+1]
			}
		}
	}
	curNames := map[string]bool{}
	for _, c := range cur {
		curNames[c.Name] = true
	}
	gap := func(a, b, c, d int) {
		if b-a != d-c || b == a {
			return
		}
		for t := 0; t < b-a; t++ {
			if old[a+t].Type != cur[c+t].Type {
				return
			}
		}
		for t := 0; t < b-a; t++ {
			o, nw := old[a+t].Name, cur[c+t].Name
			if o != nw && !curNames[o] {
				m[o] = nw
			}
		}
	}
	i, j, a, c := 0, 0, 0, 0
	for i < n && j < k {
		if old[i] == cur[j] {
			gap(a, i, c, j)
			i++
			j++
			a, c = i, j
		} else if L[i+1][j] >= L[i][j+1] {
			i++
		} else {
			j++
		}
	}
	gap(a, n, c, k)
	return m
}
