// Package sweep holds the SSA-enumeration obligations of govc (DESIGN appendix C,
// "sweep/"): facts that are decided for all inputs by looking at every
// instruction of the current tree — write frames, dynamic-call inventories,
// global-variable accesses, and the contents of the package-level tables.
package sweep

import (
	"fmt"
	"go/constant"
	"go/token"
	"go/types"

	"golang.org/x/tools/go/ssa"
)

// Concrete evaluation of the (straight-line) package initializer: gives the
// contents of the package-level tables (builtinOperators, ...).

type cval interface{}

type cobj struct {
	typ    types.Type
	fields map[int]cval // struct fields or array elements
	single cval         // scalar cell
}

type cptr struct {
	obj   *cobj
	field int // -1: whole object
	glob  *ssa.Global
}

type cclosure struct {
	fn       *ssa.Function
	bindings []cval
}

type cslice struct {
	obj      *cobj
	lo, hi   int
	elemType types.Type
}

type cmap struct {
	entries map[string]cval
	order   []string
}

type cstruct struct {
	typ    types.Type
	fields map[int]cval
}

type InitVals struct {
	Globals map[string]cval
	Err     string
}

func constOf(c *ssa.Const) cval {
	if c.Value == nil {
		return nil
	}
	switch c.Value.Kind() {
	case constant.Bool:
		return constant.BoolVal(c.Value)
	case constant.Int:
		n, _ := constant.Int64Val(c.Value)
		return n
	case constant.String:
		return constant.StringVal(c.Value)
	case constant.Float:
		f, _ := constant.Float64Val(c.Value)
		return f
	}
	return nil
}

// EvalInit interprets the package initializer.
func EvalInit(pkg *ssa.Package) *InitVals {
	iv := &InitVals{Globals: map[string]cval{}}
	init := pkg.Func("init")
	if init == nil {
		iv.Err = "no init function"
		return iv
	}
	env := map[ssa.Value]cval{}
	globs := map[*ssa.Global]*cobj{}
	gobj := func(g *ssa.Global) *cobj {
		if o, ok := globs[g]; ok {
			return o
		}
		o := &cobj{typ: g.Type().(*types.Pointer).Elem(), fields: map[int]cval{}}
		globs[g] = o
		return o
	}
	get := func(v ssa.Value) cval {
		switch x := v.(type) {
		case *ssa.Const:
			return constOf(x)
		case *ssa.Function:
			return &cclosure{fn: x}
		case *ssa.Global:
			return &cptr{obj: gobj(x), field: -1, glob: x}
		}
		return env[v]
	}
	load := func(p *cptr) cval {
		if p == nil || p.obj == nil {
			return nil
		}
		if p.field < 0 {
			if st, ok := p.obj.typ.Underlying().(*types.Struct); ok {
				cs := &cstruct{typ: p.obj.typ, fields: map[int]cval{}}
				for i := 0; i < st.NumFields(); i++ {
					cs.fields[i] = p.obj.fields[i]
				}
				return cs
			}
			return p.obj.single
		}
		return p.obj.fields[p.field]
	}
	store := func(p *cptr, v cval) {
		if p == nil || p.obj == nil {
			return
		}
		if p.field < 0 {
			if cs, ok := v.(*cstruct); ok {
				for k, x := range cs.fields {
					p.obj.fields[k] = x
				}
				return
			}
			p.obj.single = v
			return
		}
		p.obj.fields[p.field] = v
	}
	for _, b := range init.Blocks {
		if b.Index == 0 || b.Comment == "init.done" {
			continue
		}
		for _, ins := range b.Instrs {
			switch x := ins.(type) {
			case *ssa.DebugRef, *ssa.Jump, *ssa.Return, *ssa.If:
			case *ssa.Alloc:
				env[x] = &cptr{obj: &cobj{typ: x.Type().(*types.Pointer).Elem(), fields: map[int]cval{}}, field: -1}
			case *ssa.FieldAddr:
				if p, ok := get(x.X).(*cptr); ok {
					env[x] = &cptr{obj: p.obj, field: x.Field}
				}
			case *ssa.IndexAddr:
				if p, ok := get(x.X).(*cptr); ok {
					if i, ok := get(x.Index).(int64); ok {
						env[x] = &cptr{obj: p.obj, field: int(i)}
					}
				}
			case *ssa.Store:
				if p, ok := get(x.Addr).(*cptr); ok {
					store(p, get(x.Val))
				}
			case *ssa.UnOp:
				if x.Op == token.MUL {
					if p, ok := get(x.X).(*cptr); ok {
						env[x] = load(p)
					}
				}
			case *ssa.MakeMap:
				env[x] = &cmap{entries: map[string]cval{}}
			case *ssa.MapUpdate:
				if m, ok := get(x.Map).(*cmap); ok {
					k := fmt.Sprint(get(x.Key))
					if _, dup := m.entries[k]; !dup {
						m.order = append(m.order, k)
					}
					m.entries[k] = get(x.Value)
				}
			case *ssa.MakeClosure:
				c := &cclosure{fn: x.Fn.(*ssa.Function)}
				for _, bnd := range x.Bindings {
					c.bindings = append(c.bindings, get(bnd))
				}
				env[x] = c
			case *ssa.ChangeType:
				env[x] = get(x.X)
			case *ssa.MakeInterface:
				env[x] = get(x.X)
			case *ssa.Convert:
				env[x] = get(x.X)
			case *ssa.Slice:
				if p, ok := get(x.X).(*cptr); ok {
					if at, ok := p.obj.typ.Underlying().(*types.Array); ok {
						env[x] = &cslice{obj: p.obj, lo: 0, hi: int(at.Len()), elemType: at.Elem()}
					}
				}
			case *ssa.Call:
				// import initializers and errors.New etc.: opaque
				env[x] = nil
			default:
				// anything else is left unknown
			}
		}
	}
	for g, o := range globs {
		if _, isStruct := o.typ.Underlying().(*types.Struct); isStruct {
			cs := &cstruct{typ: o.typ, fields: map[int]cval{}}
			for k, v := range o.fields {
				cs.fields[k] = v
			}
			iv.Globals[g.Name()] = cs
		} else if _, isArr := o.typ.Underlying().(*types.Array); isArr {
			iv.Globals[g.Name()] = &cslice{obj: o, lo: 0, hi: len(o.fields)}
		} else {
			iv.Globals[g.Name()] = o.single
		}
	}
	return iv
}

// OpEntry describes one entry of builtinOperators.
type OpEntry struct {
	Name   string
	Func   string          // e.g. "arithmetic.execute" or "logicNot"
	Fn     *ssa.Function   // underlying (unwrapped) function
	Fields map[string]cval // receiver fields for bound methods
}

// OperatorTable extracts builtinOperators.
func (iv *InitVals) OperatorTable(keyOf func(*ssa.Function) string) (map[string]*OpEntry, []string, error) {
	m, ok := iv.Globals["builtinOperators"].(*cmap)
	if !ok {
		return nil, nil, fmt.Errorf("builtinOperators is not a map literal built in the package initializer")
	}
	out := map[string]*OpEntry{}
	for _, k := range m.order {
		c, ok := m.entries[k].(*cclosure)
		if !ok {
			return nil, nil, fmt.Errorf("entry %q is not a statically known function", k)
		}
		e := &OpEntry{Name: k, Fields: map[string]cval{}}
		fn := c.fn
		if fn.Synthetic != "" && len(c.bindings) == 1 {
			// bound method wrapper: find the wrapped method
			var target *ssa.Function
			for _, b := range fn.Blocks {
				for _, ins := range b.Instrs {
					if call, ok := ins.(*ssa.Call); ok {
						if sc := call.Common().StaticCallee(); sc != nil {
							target = sc
						}
					}
				}
			}
			if target == nil {
				return nil, nil, fmt.Errorf("entry %q: cannot resolve bound method %s", k, fn.Name())
			}
			fn = target
			if cs, ok := c.bindings[0].(*cstruct); ok {
				if st, ok := cs.typ.Underlying().(*types.Struct); ok {
					for i := 0; i < st.NumFields(); i++ {
						v := cs.fields[i]
						if v == nil {
							// zero value
							if b, ok := st.Field(i).Type().Underlying().(*types.Basic); ok && b.Info()&types.IsString != 0 {
								v = ""
							} else {
								v = int64(0)
							}
						}
						e.Fields[st.Field(i).Name()] = v
					}
				}
			}
		}
		e.Fn = fn
		e.Func = keyOf(fn)
		out[k] = e
	}
	return out, m.order, nil
}

// StringSlice extracts a []string global initialised by a literal.
func (iv *InitVals) StringSlice(name string) ([]string, bool) {
	s, ok := iv.Globals[name].(*cslice)
	if !ok {
		return nil, false
	}
	var out []string
	for i := s.lo; i < s.hi; i++ {
		v, ok := s.obj.fields[i].(string)
		if !ok {
			return nil, false
		}
		out = append(out, v)
	}
	return out, true
}
