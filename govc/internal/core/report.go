package core

import (
	"encoding/json"
	"fmt"
	"os"
	"path/filepath"
	"regexp"
	"sort"
	"strings"
	"sync"
	"time"
)

// ---------------------------------------------------------------- claims

type Claim struct {
	Match  string   `json:"match"`            // glob over obligation names ('*' = any run of characters)
	Except []string `json:"except,omitempty"` // globs excluded from the claim
	Min    int      `json:"min"`              // at least this many obligations must match (vacuity guard)
	Note   string   `json:"note,omitempty"`
}

type ClaimsFile struct {
	Property    string                     `json:"property"`
	Level       string                     `json:"level"` // proof | other
	Explanation string                     `json:"explanation"`
	Engines     map[string]json.RawMessage `json:"engines"` // engine name -> engine specific selection
	Claims      []Claim                    `json:"claims"`
	Assumptions []string                   `json:"assumptions"`
	Undecided   []string                   `json:"undecided"` // parts of the property no obligation covers (reported, never claimed)
}

func LoadClaims(verif, prop string) (*ClaimsFile, error) {
	b, err := os.ReadFile(filepath.Join(verif, "claims", prop+".json"))
	if err != nil {
		return nil, err
	}
	var c ClaimsFile
	if err := json.Unmarshal(b, &c); err != nil {
		return nil, fmt.Errorf("claims/%s.json: %v", prop, err)
	}
	return &c, nil
}

var globCache sync.Map

func globToRe(g string) *regexp.Regexp {
	if re, ok := globCache.Load(g); ok {
		return re.(*regexp.Regexp)
	}
	re := globToReUncached(g)
	globCache.Store(g, re)
	return re
}

func globToReUncached(g string) *regexp.Regexp {
	parts := strings.Split(g, "*")
	for i, p := range parts {
		parts[i] = regexp.QuoteMeta(p)
	}
	return regexp.MustCompile("^" + strings.Join(parts, ".*") + "$")
}

// IsClaimed reports whether some claim of the file covers the obligation name.
func (cf *ClaimsFile) IsClaimed(name string) bool {
	for i := range cf.Claims {
		if cf.Claims[i].matches(name) {
			return true
		}
	}
	return false
}

func (c *Claim) matches(name string) bool {
	if !globToRe(c.Match).MatchString(name) {
		return false
	}
	for _, e := range c.Except {
		if globToRe(e).MatchString(name) {
			return false
		}
	}
	return true
}

// ---------------------------------------------------------------- known findings

type Finding struct {
	Property   string `json:"property"`
	Status     string `json:"status"`               // known | fixed
	ID         string `json:"id"`                   // F1 ...
	Obligation string `json:"obligation"`           // glob over obligation names
	WitnessRe  string `json:"witness_re,omitempty"` // regexp the decoded witness must match (class of failing inputs)
	What       string `json:"what"`
	Commit     string `json:"commit,omitempty"`
}

type FindingsFile struct {
	Findings []Finding `json:"findings"`
	Lines    []string  `json:"lines"` // the "fixed: property=<id> <commit> <what failed>" records
}

func LoadFindings(verif string) *FindingsFile {
	var f FindingsFile
	b, err := os.ReadFile(filepath.Join(verif, "known_findings.json"))
	if err != nil {
		return &f
	}
	json.Unmarshal(b, &f)
	return &f
}

func (f *FindingsFile) match(prop string, o *Obl) *Finding {
	for i := range f.Findings {
		k := &f.Findings[i]
		if k.Status != "known" || k.Property != prop {
			continue
		}
		if !globToRe(k.Obligation).MatchString(o.Name) {
			continue
		}
		if k.WitnessRe != "" {
			re, err := regexp.Compile(k.WitnessRe)
			if err != nil || !re.MatchString(o.Witness) {
				continue
			}
		}
		return k
	}
	return nil
}

// ---------------------------------------------------------------- verdict

type Verdict struct {
	Property      string
	Claimed       []*Obl
	Unclaimed     []*Obl
	Violations    []*Obl
	Known         map[*Obl]*Finding
	MissingClaims []string
	ClaimCounts   []map[string]interface{}
	Lines         []string
	ExitCode      int
}

func sanitize(s string) string {
	s = regexp.MustCompile(`[^A-Za-z0-9_.@=-]+`).ReplaceAllString(s, "_")
	if len(s) > 120 {
		s = s[:120]
	}
	return s
}

// Decide matches obligations against claims and known findings, writes replay
// files for failures and prints the verdict lines.
func Decide(env *Env, cf *ClaimsFile, res *Result, replay func(o *Obl)) *Verdict {
	v := &Verdict{Property: cf.Property, Known: map[*Obl]*Finding{}}
	kf := LoadFindings(env.Verif)
	counts := make([]int, len(cf.Claims))
	for _, o := range res.Obls {
		claimed := o.Kind == "driver-crash" // a crash of the code under test inside a driver is always a claimed failure
		for i := range cf.Claims {
			if cf.Claims[i].matches(o.Name) {
				counts[i]++
				claimed = true
			}
		}
		if claimed {
			v.Claimed = append(v.Claimed, o)
		} else {
			v.Unclaimed = append(v.Unclaimed, o)
		}
	}
	for i, c := range cf.Claims {
		min := c.Min
		if min < 1 {
			min = 1
		}
		v.ClaimCounts = append(v.ClaimCounts, map[string]interface{}{"match": c.Match, "min": c.Min, "matched": counts[i]})
		if counts[i] < min {
			v.MissingClaims = append(v.MissingClaims, fmt.Sprintf("%s (have %d, need %d)", c.Match, counts[i], min))
		}
	}
	rdir := filepath.Join(env.Out, "replays", cf.Property)
	writeReplay := func(o *Obl) string {
		os.MkdirAll(rdir, 0o755)
		base := filepath.Join(rdir, sanitize(o.Name))
		if o.Query != "" {
			os.WriteFile(base+".smt2", []byte(FullText(Query{Text: o.Query})), 0o644)
		}
		rec := map[string]interface{}{
			"property":      cf.Property,
			"obligation":    o.Name,
			"kind":          o.Kind,
			"tier":          o.Tier,
			"status":        o.Status,
			"detail":        o.Detail,
			"pos":           o.Pos,
			"solver":        o.Solver,
			"solver_output": o.Output,
			"model":         o.Model,
			"witness":       o.Witness,
			"replay":        o.Replay,
			"smt_file":      base + ".smt2",
			"replay_kind":   o.ReplayKind,
			"replay_data":   o.ReplayData,
		}
		b, _ := json.MarshalIndent(rec, "", " ")
		os.WriteFile(base+".json", b, 0o644)
		return base + ".json"
	}
	// A broken tree can fail tens of thousands of bounded-tier obligations: the first maxReplays failed obligations
	// are replayed individually here (engines replay in batches before), the first maxListed get their own
	// FAILED-OBLIGATION / VIOLATION lines and replay files, the rest are counted in one summary line.
	const maxReplays, maxListed = 12, 40
	nReplays, nSilent := 0, 0
	// proof-tier and sweep obligations first: they name the function and clause that broke
	sort.SliceStable(v.Claimed, func(i, j int) bool {
		return (v.Claimed[i].Tier != "bounded") && (v.Claimed[j].Tier == "bounded")
	})
	for _, o := range v.Claimed {
		if o.Status == Discharged {
			continue
		}
		if (o.Status == Refuted || (o.Status == Unknown && o.ReplayKind == "compile-probe")) && replay != nil && o.Replay == nil && nReplays < maxReplays {
			nReplays++
			replay(o)
		}
		if k := kf.match(cf.Property, o); k != nil {
			v.Known[o] = k
			v.Lines = append(v.Lines, fmt.Sprintf("KNOWN-FINDING: property=%s %s %s: %s", cf.Property, k.ID, o.Name, k.What))
			continue
		}
		v.Violations = append(v.Violations, o)
		if len(v.Violations) > maxListed {
			nSilent++
			continue
		}
		p := writeReplay(o)
		line := fmt.Sprintf("VIOLATION property=%s replay=%s", cf.Property, p)
		if o.Replay == nil || !o.Replay.Confirmed {
			line += " no-failing-input-found"
		}
		v.Lines = append(v.Lines, fmt.Sprintf("FAILED-OBLIGATION %s [%s] %s %s", o.Name, o.Status, o.Detail, o.Witness))
		v.Lines = append(v.Lines, line)
	}
	if nSilent > 0 {
		v.Lines = append(v.Lines, fmt.Sprintf("FAILED-OBLIGATIONS-NOT-LISTED property=%s count=%d (only the first %d failed obligations are listed above)", cf.Property, nSilent, maxListed))
	}
	// unclaimed: only a replayed counterexample is reported
	nUnclReplays := 0
	for _, o := range v.Unclaimed {
		if o.Status != Refuted || o.Canary {
			continue
		}
		if replay != nil && o.Replay == nil && o.ReplayKind != "" && nUnclReplays < maxReplays {
			nUnclReplays++
			replay(o)
		}
		if o.Replay != nil && o.Replay.Confirmed {
			if k := kf.match(cf.Property, o); k != nil {
				v.Known[o] = k
				v.Lines = append(v.Lines, fmt.Sprintf("KNOWN-FINDING: property=%s %s %s: %s", cf.Property, k.ID, o.Name, k.What))
				continue
			}
			v.Violations = append(v.Violations, o)
			p := writeReplay(o)
			v.Lines = append(v.Lines, fmt.Sprintf("FAILED-OBLIGATION %s [%s, unclaimed, replay confirmed] %s %s", o.Name, o.Status, o.Detail, o.Witness))
			v.Lines = append(v.Lines, fmt.Sprintf("VIOLATION property=%s replay=%s", cf.Property, p))
		}
	}
	for _, m := range v.MissingClaims {
		os.MkdirAll(rdir, 0o755)
		p := filepath.Join(rdir, "missing_"+sanitize(m)+".json")
		b, _ := json.MarshalIndent(map[string]interface{}{
			"property": cf.Property, "obligation": "claimed obligations missing: " + m,
			"detail": "the claim matched fewer obligations than on the reference tree: the function is gone, renamed, outside the translated subset, or its contract no longer attaches",
		}, "", " ")
		os.WriteFile(p, b, 0o644)
		v.Lines = append(v.Lines, "FAILED-OBLIGATION claimed obligations missing: "+m)
		v.Lines = append(v.Lines, fmt.Sprintf("VIOLATION property=%s replay=%s no-failing-input-found", cf.Property, p))
	}
	if len(v.Violations) > 0 || len(v.MissingClaims) > 0 {
		v.ExitCode = 1
	}
	return v
}

// ---------------------------------------------------------------- evidence

func WriteEvidence(env *Env, cf *ClaimsFile, res *Result, v *Verdict, wall time.Duration, checkerCmd string) error {
	nClaimed, nDis, nProved, nBounded, nSweep := 0, 0, 0, 0, 0
	solverWins := map[string]int{}
	solverSecs := 0.0
	for _, o := range v.Claimed {
		nClaimed++
		if o.Status == Discharged {
			nDis++
			switch o.Tier {
			case Proved:
				nProved++
			case Bounded:
				nBounded++
			case Sweep:
				nSweep++
			}
		}
		if o.Solver != "" {
			solverWins[o.Solver]++
		}
		solverSecs += o.TimeS
	}
	type uu struct {
		Name   string `json:"name"`
		Status Status `json:"status"`
		Detail string `json:"detail,omitempty"`
	}
	var unclaimed []uu
	nUnclaimedDis := 0
	for _, o := range v.Unclaimed {
		if o.Status == Discharged {
			nUnclaimedDis++
			continue
		}
		unclaimed = append(unclaimed, uu{o.Name, o.Status, trunc(o.Output, 160)})
	}
	// samples: a few actual obligations
	var samples []interface{}
	samples = append(samples, res.Samples...)
	step := len(v.Claimed)/6 + 1
	for i := 0; i < len(v.Claimed); i += step {
		o := v.Claimed[i]
		samples = append(samples, map[string]interface{}{"obligation": o.Name, "kind": o.Kind, "tier": o.Tier, "status": o.Status, "solver": o.Solver, "time_s": o.TimeS, "smt_bytes": o.SMTBytes, "detail": o.Detail})
	}
	if len(samples) == 0 {
		samples = append(samples, "no obligations generated")
	}
	known := []string{}
	for o, k := range v.Known {
		known = append(known, k.ID+" "+o.Name)
	}
	sort.Strings(known)
	trusted := dedup(res.Trusted)
	assumptions := dedup(append(append([]string{}, cf.Assumptions...), res.Assumptions...))
	cov := map[string]interface{}{
		"obligations":              nClaimed,
		"discharged":               nDis,
		"discharged_proved":        nProved,
		"discharged_bounded":       nBounded,
		"discharged_sweep":         nSweep,
		"checker_cmd":              checkerCmd,
		"trusted_base":             trusted,
		"explanation":              cf.Explanation,
		"samples":                  samples,
		"functions_under_contract": res.Funcs,
		"solver_wins":              solverWins,
		"solver_seconds":           solverSecs,
		"solvers":                  SolverNames(),
		"unclaimed_discharged":     nUnclaimedDis,
		"unclaimed_undischarged":   unclaimed,
		"undecided":                cf.Undecided,
		"known_findings":           known,
		"missing_claims":           v.MissingClaims,
		"claim_counts":             v.ClaimCounts,
		"evaluations":              nClaimed,
		"distinct_nontrivial":      nClaimed,
		"rule":                     "one evaluation = one claimed proof obligation generated from the SSA of /repo's working tree (or one bounded-tier query); all are distinct by name; see obligations/discharged for the split",
	}
	for k, x := range res.Extra {
		cov[k] = x
	}
	level := cf.Level
	if level == "" {
		level = "other"
	}
	ev := map[string]interface{}{
		"property_id": cf.Property,
		"tier":        env.Tier,
		"seed":        env.Seed,
		"level":       level,
		"coverage":    cov,
		"assumptions": assumptions,
		"wall_s":      wall.Seconds(),
		"violations":  len(v.Violations) + len(v.MissingClaims),
	}
	b, err := json.MarshalIndent(ev, "", " ")
	if err != nil {
		return err
	}
	os.MkdirAll(filepath.Join(env.Out, "evidence"), 0o755)
	return os.WriteFile(filepath.Join(env.Out, "evidence", cf.Property+".json"), b, 0o644)
}

func dedup(xs []string) []string {
	seen := map[string]bool{}
	out := []string{}
	for _, x := range xs {
		if !seen[x] {
			seen[x] = true
			out = append(out, x)
		}
	}
	return out
}
