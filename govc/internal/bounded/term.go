package bounded

// SMT terms with light-weight simplification.  Everything the symbolic
// executor, the operator terms and the reference generators produce is built
// through the smart constructors of this file, so that the same fact always
// has the same canonical spelling (the decision cache of the path enumeration
// and the syntactic comparison of trace records rely on that).

import (
	"fmt"
	"math/big"
	"sort"
	"strings"
	"sync/atomic"
)

// Sort of a term.
type Sort byte

const (
	SBool Sort = 'B'
	SInt  Sort = 'I'
	SVal  Sort = 'V' // datatype Val: dynamic values of eval.Value
	SErr  Sort = 'E' // datatype Err: ENil | EErr(id)
)

func (s Sort) SMT() string {
	switch s {
	case SBool:
		return "Bool"
	case SInt:
		return "Int"
	case SVal:
		return "Val"
	case SErr:
		return "Err"
	}
	return "?"
}

// T is an immutable SMT term.
type T struct {
	Op   string // head symbol; for atoms the symbol / literal itself
	Args []*T
	Sort Sort
	Lit  *big.Int // integer literal (Op == "#int")
	s    atomic.Pointer[string]
}

// String prints the term (cached; safe for concurrent use).
func (t *T) String() string {
	if p := t.s.Load(); p != nil {
		return *p
	}
	r := t.render()
	t.s.Store(&r)
	return r
}

func (t *T) render() string {
	var ts string
	switch {
	case t.Op == "#int":
		if t.Lit.Sign() < 0 {
			ts = "(- " + new(big.Int).Neg(t.Lit).String() + ")"
		} else {
			ts = t.Lit.String()
		}
	case len(t.Args) == 0:
		ts = t.Op
	default:
		var sb strings.Builder
		sb.WriteByte('(')
		if strings.HasPrefix(t.Op, "is-") {
			sb.WriteString("(_ is " + t.Op[3:] + ")")
		} else {
			sb.WriteString(t.Op)
		}
		for _, a := range t.Args {
			sb.WriteByte(' ')
			sb.WriteString(a.String())
		}
		sb.WriteByte(')')
		ts = sb.String()
	}
	return ts
}

func mk(op string, s Sort, args ...*T) *T { return &T{Op: op, Sort: s, Args: args} }

var (
	True  = mk("true", SBool)
	False = mk("false", SBool)
	VNil  = mk("VNil", SVal)
	VDNE  = mk("VDNE", SVal)
	ENil  = mk("ENil", SErr)
)

// constructor table: name -> (sort, selector names, selector sorts)
type ctorInfo struct {
	sort Sort
	sels []string
	ss   []Sort
}

var ctors = map[string]ctorInfo{
	"VNil":     {SVal, nil, nil},
	"VDNE":     {SVal, nil, nil},
	"VBool":    {SVal, []string{"bval"}, []Sort{SBool}},
	"VInt":     {SVal, []string{"ival"}, []Sort{SInt}},
	"VStr":     {SVal, []string{"sval"}, []Sort{SInt}},
	"VIntList": {SVal, []string{"ilid"}, []Sort{SInt}},
	"VStrList": {SVal, []string{"slid"}, []Sort{SInt}},
	"VObj":     {SVal, []string{"oid"}, []Sort{SInt}},
	"ENil":     {SErr, nil, nil},
	"EErr":     {SErr, []string{"eid"}, []Sort{SInt}},
	"EBuiltin": {SErr, []string{"efam"}, []Sort{SInt}},
}

var selCtor = map[string]string{"bval": "VBool", "ival": "VInt", "sval": "VStr", "ilid": "VIntList", "slid": "VStrList", "oid": "VObj", "eid": "EErr", "efam": "EBuiltin"}

func (t *T) isCtor() bool  { _, ok := ctors[t.Op]; return ok }
func (t *T) IsTrue() bool  { return t.Op == "true" }
func (t *T) IsFalse() bool { return t.Op == "false" }
func (t *T) isLit() bool   { return t.Op == "#int" }

// Sym is an uninterpreted constant.
func Sym(name string, s Sort) *T { return mk(name, s) }

func Int(n int64) *T       { return &T{Op: "#int", Sort: SInt, Lit: big.NewInt(n)} }
func IntBig(n *big.Int) *T { return &T{Op: "#int", Sort: SInt, Lit: new(big.Int).Set(n)} }
func BoolT(b bool) *T {
	if b {
		return True
	}
	return False
}

func VBool(b *T) *T    { return mk("VBool", SVal, b) }
func VInt(i *T) *T     { return mk("VInt", SVal, i) }
func VStr(i *T) *T     { return mk("VStr", SVal, i) }
func VIntList(i *T) *T { return mk("VIntList", SVal, i) }
func VStrList(i *T) *T { return mk("VStrList", SVal, i) }
func VObj(i *T) *T     { return mk("VObj", SVal, i) }
func EErr(i *T) *T     { return mk("EErr", SErr, i) }
func EBuiltin(i *T) *T { return mk("EBuiltin", SErr, i) }

// App applies an uninterpreted or prelude-defined function.
func App(fn string, s Sort, args ...*T) *T { return mk(fn, s, args...) }

func Not(a *T) *T {
	switch {
	case a.IsTrue():
		return False
	case a.IsFalse():
		return True
	case a.Op == "not":
		return a.Args[0]
	}
	return mk("not", SBool, a)
}

func And(xs ...*T) *T {
	var out []*T
	seen := map[string]bool{}
	var add func(x *T) bool
	add = func(x *T) bool {
		switch {
		case x.IsTrue():
			return true
		case x.IsFalse():
			return false
		case x.Op == "and":
			for _, y := range x.Args {
				if !add(y) {
					return false
				}
			}
			return true
		}
		if !seen[x.String()] {
			seen[x.String()] = true
			out = append(out, x)
		}
		return true
	}
	for _, x := range xs {
		if !add(x) {
			return False
		}
	}
	switch len(out) {
	case 0:
		return True
	case 1:
		return out[0]
	}
	return mk("and", SBool, out...)
}

func Or(xs ...*T) *T {
	var out []*T
	seen := map[string]bool{}
	var add func(x *T) bool
	add = func(x *T) bool {
		switch {
		case x.IsFalse():
			return true
		case x.IsTrue():
			return false
		case x.Op == "or":
			for _, y := range x.Args {
				if !add(y) {
					return false
				}
			}
			return true
		}
		if !seen[x.String()] {
			seen[x.String()] = true
			out = append(out, x)
		}
		return true
	}
	for _, x := range xs {
		if !add(x) {
			return True
		}
	}
	switch len(out) {
	case 0:
		return False
	case 1:
		return out[0]
	}
	return mk("or", SBool, out...)
}

func Implies(a, b *T) *T { return Or(Not(a), b) }

func Xor(a, b *T) *T {
	switch {
	case a.IsFalse():
		return b
	case b.IsFalse():
		return a
	case a.IsTrue():
		return Not(b)
	case b.IsTrue():
		return Not(a)
	}
	return mk("xor", SBool, a, b)
}

func Ite(c, a, b *T) *T {
	switch {
	case c.IsTrue():
		return a
	case c.IsFalse():
		return b
	case a.String() == b.String():
		return a
	}
	if c.Op == "not" {
		return Ite(c.Args[0], b, a)
	}
	if a.Sort == SBool {
		switch {
		case a.IsTrue() && b.IsFalse():
			return c
		case a.IsFalse() && b.IsTrue():
			return Not(c)
		case a.IsTrue():
			return Or(c, b)
		case a.IsFalse():
			return And(Not(c), b)
		case b.IsTrue():
			return Or(Not(c), a)
		case b.IsFalse():
			return And(c, a)
		}
	}
	return mk("ite", a.Sort, c, a, b)
}

// Is is the datatype tester ((_ is C) x).
func Is(ctor string, x *T) *T {
	if x.isCtor() {
		return BoolT(x.Op == ctor)
	}
	if x.Op == "ite" {
		return Ite(x.Args[0], Is(ctor, x.Args[1]), Is(ctor, x.Args[2]))
	}
	return mk("is-"+ctor, SBool, x)
}

// Sel is a datatype selector (bval, ival, ...).
func Sel(sel string, x *T) *T {
	c := selCtor[sel]
	ci := ctors[c]
	if x.Op == c {
		return x.Args[0]
	}
	if x.Op == "ite" {
		return Ite(x.Args[0], Sel(sel, x.Args[1]), Sel(sel, x.Args[2]))
	}
	return mk(sel, ci.ss[0], x)
}

func BVal(x *T) *T { return Sel("bval", x) }
func IVal(x *T) *T { return Sel("ival", x) }

// Eq is equality with constructor-aware simplification.
func Eq(a, b *T) *T {
	if a.String() == b.String() {
		return True
	}
	if a.Sort == SInt {
		if x, ok := GroundInt(a); ok {
			if y, ok := GroundInt(b); ok {
				return BoolT(x.Cmp(y) == 0)
			}
		}
	}
	if a.Sort == SBool {
		switch {
		case a.IsTrue():
			return b
		case b.IsTrue():
			return a
		case a.IsFalse():
			return Not(b)
		case b.IsFalse():
			return Not(a)
		}
	}
	if a.isCtor() && b.isCtor() {
		if a.Op != b.Op {
			return False
		}
		var cs []*T
		for i := range a.Args {
			cs = append(cs, Eq(a.Args[i], b.Args[i]))
		}
		return And(cs...)
	}
	if a.isCtor() && !b.isCtor() {
		a, b = b, a
	}
	if b.isCtor() {
		// a is not a constructor application
		if a.Op == "ite" {
			return Ite(a.Args[0], Eq(a.Args[1], b), Eq(a.Args[2], b))
		}
		ci := ctors[b.Op]
		cs := []*T{Is(b.Op, a)}
		for i, s := range ci.sels {
			cs = append(cs, Eq(Sel(s, a), b.Args[i]))
		}
		return And(cs...)
	}
	// order the operands so that (= x y) and (= y x) coincide
	if a.String() > b.String() {
		a, b = b, a
	}
	return mk("=", SBool, a, b)
}

// IsENil abbreviates (= e ENil).
func IsENil(e *T) *T { return Eq(e, ENil) }

// ---------------------------------------------------------------- integers (Go int64 semantics)

var (
	two63 = new(big.Int).Lsh(big.NewInt(1), 63)
	two64 = new(big.Int).Lsh(big.NewInt(1), 64)
)

func wrap64big(x *big.Int) *big.Int {
	r := new(big.Int).Add(x, two63)
	r.Mod(r, two64) // Euclidean for positive modulus
	return r.Sub(r, two63)
}

// goDivBig is Go's truncated division (b != 0), before wrapping.
func goDivBig(a, b *big.Int) *big.Int { return new(big.Int).Quo(a, b) }
func goRemBig(a, b *big.Int) *big.Int { return new(big.Int).Rem(a, b) }

// GroundInt evaluates an integer term without free symbols (literals, + - wrap64
// and the Go arithmetic functions on ground arguments).
func GroundInt(t *T) (*big.Int, bool) {
	if t.Sort != SInt {
		return nil, false
	}
	if t.isLit() {
		return t.Lit, true
	}
	switch t.Op {
	case "wrap64":
		x, ok := GroundInt(t.Args[0])
		if !ok {
			return nil, false
		}
		return wrap64big(x), true
	case "+", "-", "gomul", "godiv", "gomod":
		if len(t.Args) != 2 {
			return nil, false
		}
		a, ok1 := GroundInt(t.Args[0])
		b, ok2 := GroundInt(t.Args[1])
		if !ok1 || !ok2 {
			return nil, false
		}
		switch t.Op {
		case "+":
			return new(big.Int).Add(a, b), true
		case "-":
			return new(big.Int).Sub(a, b), true
		case "gomul":
			return new(big.Int).Mul(a, b), true
		case "godiv":
			if b.Sign() == 0 {
				return big.NewInt(0), true
			}
			return goDivBig(a, b), true
		default:
			if b.Sign() == 0 {
				return new(big.Int).Set(a), true // a - 0*godiv(a,0)
			}
			return goRemBig(a, b), true
		}
	}
	return nil, false
}

// Arith builds wrap64(a op b) for op in + - * / % with Go semantics. The
// non-linear operations are applications of the OPAQUE functions gomul / godiv
// / gomod (DESIGN 6.6); they are not evaluated here even on literals, so that
// real code and reference always build the same applications; BuildQuery
// asserts the value of every ground application (GroundAxioms).
func Arith(op string, a, b *T) *T {
	switch op {
	case "+", "-":
		if a.isLit() && b.isLit() {
			if op == "+" {
				return IntBig(wrap64big(new(big.Int).Add(a.Lit, b.Lit)))
			}
			return IntBig(wrap64big(new(big.Int).Sub(a.Lit, b.Lit)))
		}
		return mk("wrap64", SInt, mk(op, SInt, a, b))
	case "*":
		return mk("wrap64", SInt, mk("gomul", SInt, a, b))
	case "/":
		return mk("wrap64", SInt, mk("godiv", SInt, a, b))
	case "%":
		return mk("wrap64", SInt, mk("gomod", SInt, a, b))
	}
	panic("arith " + op)
}

// GroundAxioms: (= app value) for every ground application of the opaque
// arithmetic functions occurring in ts.
func GroundAxioms(ts ...*T) []*T {
	seen := map[string]bool{}
	var out []*T
	for _, t := range ts {
		if t == nil {
			continue
		}
		t.Walk(func(x *T) {
			if x.Op != "gomul" && x.Op != "godiv" && x.Op != "gomod" {
				return
			}
			k := x.String()
			if seen[k] {
				return
			}
			seen[k] = true
			if v, ok := GroundInt(x); ok {
				out = append(out, mk("=", SBool, x, IntBig(v)))
			}
		})
	}
	sort.Slice(out, func(i, j int) bool { return out[i].String() < out[j].String() })
	return out
}

func Cmp(op string, a, b *T) *T {
	x, okx := GroundInt(a)
	y, oky := GroundInt(b)
	if okx && oky {
		c := x.Cmp(y)
		switch op {
		case "<":
			return BoolT(c < 0)
		case "<=":
			return BoolT(c <= 0)
		case ">":
			return BoolT(c > 0)
		case ">=":
			return BoolT(c >= 0)
		}
	}
	return mk(op, SBool, a, b)
}

// ---------------------------------------------------------------- traversal helpers

// Walk visits every sub-term once per occurrence.
func (t *T) Walk(f func(*T)) {
	f(t)
	for _, a := range t.Args {
		a.Walk(f)
	}
}

// Decls collects the declarations needed by the uninterpreted symbols of ts:
// constants (gv_*, ge_*, av_*, ...) and functions (cv_*, ce_*, berr_*, ...).
type Decls struct {
	m    map[string]string
	skip map[string]bool
}

func NewDecls() *Decls { return &Decls{m: map[string]string{}, skip: map[string]bool{}} }

// Skip marks names that are defined (define-fun) rather than declared.
func (d *Decls) Skip(names ...string) {
	for _, n := range names {
		d.skip[n] = true
	}
}

var interpreted = map[string]bool{
	"true": true, "false": true, "not": true, "and": true, "or": true, "xor": true, "ite": true, "=": true,
	"+": true, "-": true, "<": true, "<=": true, ">": true, ">=": true, "#int": true,
	"wrap64": true, "gomul": true, "godiv": true, "gomod": true, "memI": true, "memS": true, "emptyL": true, "inrange64": true,
	"bval": true, "ival": true, "sval": true, "ilid": true, "slid": true, "oid": true, "eid": true, "efam": true,
}

func (d *Decls) Add(ts ...*T) {
	for _, t := range ts {
		if t == nil {
			continue
		}
		t.Walk(func(x *T) {
			if interpreted[x.Op] || x.isCtor() || strings.HasPrefix(x.Op, "is-") || d.skip[x.Op] {
				return
			}
			if _, ok := d.m[x.Op]; ok {
				return
			}
			if len(x.Args) == 0 {
				d.m[x.Op] = fmt.Sprintf("(declare-const %s %s)", x.Op, x.Sort.SMT())
				return
			}
			var as []string
			for _, a := range x.Args {
				as = append(as, a.Sort.SMT())
			}
			d.m[x.Op] = fmt.Sprintf("(declare-fun %s (%s) %s)", x.Op, strings.Join(as, " "), x.Sort.SMT())
		})
	}
}

func (d *Decls) Has(name string) bool { _, ok := d.m[name]; return ok }

func (d *Decls) Names() []string {
	var ns []string
	for n := range d.m {
		ns = append(ns, n)
	}
	sort.Strings(ns)
	return ns
}

func (d *Decls) Text() string {
	var sb strings.Builder
	for _, n := range d.Names() {
		sb.WriteString(d.m[n])
		sb.WriteByte('\n')
	}
	return sb.String()
}

// Apps collects the distinct applications of the named function symbols
// (prefix match) occurring in ts, in deterministic order.
func Apps(prefixes []string, ts ...*T) []*T {
	seen := map[string]*T{}
	for _, t := range ts {
		if t == nil {
			continue
		}
		t.Walk(func(x *T) {
			for _, p := range prefixes {
				if strings.HasPrefix(x.Op, p) {
					seen[x.String()] = x
				}
			}
		})
	}
	var keys []string
	for k := range seen {
		keys = append(keys, k)
	}
	sort.Strings(keys)
	var out []*T
	for _, k := range keys {
		out = append(out, seen[k])
	}
	return out
}

// Defs is an ordered list of named definitions (define-fun without
// parameters): sub-results of the reference generators are named instead of
// being copied, so that the printed terms stay linear in the tree size.
type Defs struct {
	names []string
	body  map[string]*T
	n     int
}

func NewDefs() *Defs { return &Defs{body: map[string]*T{}} }

// Name returns t itself when it is small, otherwise a fresh defined constant.
func (d *Defs) Name(prefix string, t *T) *T {
	if d == nil || len(t.String()) < 120 {
		return t
	}
	d.n++
	name := fmt.Sprintf("%s!%d", prefix, d.n)
	d.names = append(d.names, name)
	d.body[name] = t
	return Sym(name, t.Sort)
}

// Define always introduces the name (used for the top-level reference values).
func (d *Defs) Define(name string, t *T) *T {
	d.names = append(d.names, name)
	d.body[name] = t
	return Sym(name, t.Sort)
}

func (d *Defs) Names() []string { return d.names }

func (d *Defs) Bodies() []*T {
	var out []*T
	for _, n := range d.names {
		out = append(out, d.body[n])
	}
	return out
}

func (d *Defs) Text() string {
	var sb strings.Builder
	for _, n := range d.names {
		b := d.body[n]
		fmt.Fprintf(&sb, "(define-fun %s () %s %s)\n", n, b.Sort.SMT(), b.String())
	}
	return sb.String()
}
