#!/bin/sh
# Final confirmation of the seeded changes against /repo itself (the procedure of the task brief):
#   git -C /repo apply <patch>; ./check <property>; git -C /repo checkout -- .
# Usage: tools/seedconfirm.sh ['<shell pattern of seed names>'] ; SEEDCONFIRM_OUT=<file> selects the result file.
# Writes seeded/RESULTS.tsv (seed, property, exit code, number of VIOLATION lines, first failed obligation).
# The evidence files are rewritten by these runs: re-run the checks on the clean tree afterwards.
cd "$(dirname "$0")/.." || exit 2
[ -z "$(git -C /repo status --porcelain)" ] || { echo "/repo is not clean"; exit 2; }
out=${SEEDCONFIRM_OUT:-seeded/RESULTS.tsv}
printf 'seed\tproperty\texit\tviolation_lines\tfirst_failed_obligation\n' > $out
for d in seeded/C??-?; do
  n=$(basename $d); p=$(jq -r .property $d/meta.json)
  [ -n "$1" ] && case "$n" in $1) ;; *) continue;; esac
  if ! git -C /repo apply "$PWD/$d/patch.diff"; then printf '%s\t%s\tpatch-does-not-apply\t0\t\n' $n $p >> $out; continue; fi
  o=$(./check $p 2>&1); rc=$?
  git -C /repo checkout -- .
  nv=$(echo "$o" | grep -c '^VIOLATION')
  ff=$(echo "$o" | grep '^FAILED-OBLIGATION' | head -1 | cut -c1-200 | tr '\t' ' ')
  printf '%s\t%s\t%s\t%s\t%s\n' $n $p $rc $nv "$ff" >> $out
  echo "$n $p exit=$rc violations=$nv"
done
[ -z "$(git -C /repo status --porcelain)" ] || echo "WARNING: /repo not clean after the run"
