package vc

import (
	"fmt"
	"strconv"
	"strings"

	"govc/internal/core"
	"govc/internal/load"
)

// A Clause is one labelled specification expression.
type Clause struct {
	Label string
	Expr  *core.Sexp
	Src   string
	Line  int
}

type LoopSpec struct {
	Ordinal    int
	Var        string // optional: name of a loop-carried variable that must be a phi of the header
	Invariants []Clause
	Decreases  *Clause
	Exits      []Clause // must hold on every edge into the loop's exit block (normal exit and every break)
}

type StoreSite struct {
	Field string // "Type.field"
	Clause
}

type Contract struct {
	Key        string
	Props      []string
	Requires   []Clause
	Ensures    []Clause
	StoreSites []StoreSite // obligations at every store to a named struct field in this function ($base, $val)
	CallSites  []Clause    // obligations at every call through a function value in this function ($fnbase, $arg<i>, $callee)
	Loops      map[int]*LoopSpec
	Inline     bool     // body is inlined at call sites (its loop specs are used there)
	Pure       bool     // ensures clauses define the result as a function of the arguments (no heap effect)
	Assigns    []string // informational; the effective frame is the inferred mod set
	Uses       []string // named axioms this function's proof may use
	Binds      map[string]string // captured function variable -> function key it holds (self-recursive closures)
	DynCallees []string // possible targets of calls through non-operator function values in this function
	Trusted    bool     // contract is assumed at call sites but the body is not verified (listed as assumption)
	Line       int
	Opaque     []string // clause labels only
}

type Lemma struct {
	Name   string
	Props  []string
	Script string // SMT-LIB commands; the lemma holds iff the script is unsat
	Line   int
}

// Macro is a syntactic abbreviation: (name $a $b) body; expanded in specification expressions.
type Macro struct {
	Name   string
	Params []string
	Body   *core.Sexp
}

type Spec struct {
	Contracts  map[string]*Contract
	Order      []string
	Ghost      []string // SMT-LIB declarations/definitions added to the prelude
	Lemmas     []*Lemma
	Axioms     []string // assumed facts (each listed in the evidence)
	AxiomNames []string // parallel: "" = global (every query), otherwise only in functions that say `uses <name>`
	Macros     map[string]*Macro
	FieldInvs  map[string]*core.Sexp // "Type.field" -> invariant over $v (assumed at loads, proved at stores)
	Errors     []string
}

var clauseKeywords = map[string]bool{"func": true, "requires": true, "ensures": true, "loop": true, "invariant": true,
	"decreases": true, "lemma": true, "macro": true, "dyncallees": true, "fieldinv": true, "uses": true, "ghost": true, "axiom": true, "inline": true, "assigns": true, "callsite": true, "binds": true, "storesite": true, "exit": true, "props": true, "trusted": true, "pure": true, "end": true}

// ParseSpec reads the //@ lines of the guarded contract file.
func ParseSpec(lines []load.ContractLine) *Spec {
	sp := &Spec{Contracts: map[string]*Contract{}, Macros: map[string]*Macro{}, FieldInvs: map[string]*core.Sexp{}}
	// group into clauses: a clause starts at a line whose first word is a keyword and
	// extends over following lines until the next keyword line.
	type raw struct {
		kw, rest string
		line     int
	}
	var raws []raw
	for _, l := range lines {
		t := strings.TrimSpace(l.Text)
		if t == "" || strings.HasPrefix(t, "#") || strings.HasPrefix(t, "--") {
			continue
		}
		w := t
		if i := strings.IndexAny(t, " \t"); i >= 0 {
			w = t[:i]
		}
		if clauseKeywords[w] {
			raws = append(raws, raw{kw: w, rest: strings.TrimSpace(t[len(w):]), line: l.Line})
		} else if len(raws) > 0 {
			raws[len(raws)-1].rest += "\n" + t
		} else {
			sp.Errors = append(sp.Errors, fmt.Sprintf("line %d: text before any clause", l.Line))
		}
	}
	var cur *Contract
	var curLoop *LoopSpec
	var curLemma *Lemma
	parseClause := func(r raw) (Clause, bool) {
		rest := strings.TrimSpace(r.rest)
		label := ""
		if strings.HasPrefix(rest, "[") {
			if j := strings.Index(rest, "]"); j > 0 {
				label = strings.TrimSpace(rest[1:j])
				rest = strings.TrimSpace(rest[j+1:])
			}
		}
		sx, tail, err := core.ParseSexp(rest)
		if err != nil || sx == nil {
			sp.Errors = append(sp.Errors, fmt.Sprintf("line %d: cannot parse %s clause: %v", r.line, r.kw, err))
			return Clause{}, false
		}
		if strings.TrimSpace(stripComments(tail)) != "" {
			sp.Errors = append(sp.Errors, fmt.Sprintf("line %d: trailing text after %s clause: %q", r.line, r.kw, trunc(tail, 40)))
			return Clause{}, false
		}
		return Clause{Label: label, Expr: sx, Src: rest, Line: r.line}, true
	}
	for _, r := range raws {
		switch r.kw {
		case "func":
			f := strings.Fields(r.rest)
			if len(f) == 0 {
				sp.Errors = append(sp.Errors, fmt.Sprintf("line %d: func without key", r.line))
				continue
			}
			cur = &Contract{Key: f[0], Loops: map[int]*LoopSpec{}, Line: r.line}
			curLoop, curLemma = nil, nil
			if _, dup := sp.Contracts[cur.Key]; dup {
				sp.Errors = append(sp.Errors, fmt.Sprintf("line %d: duplicate contract for %s", r.line, cur.Key))
			}
			sp.Contracts[cur.Key] = cur
			sp.Order = append(sp.Order, cur.Key)
			for _, w := range f[1:] {
				if strings.HasPrefix(w, "C") {
					cur.Props = append(cur.Props, strings.Trim(w, ","))
				}
			}
		case "props":
			if cur != nil {
				cur.Props = append(cur.Props, strings.Fields(r.rest)...)
			}
		case "inline":
			if cur != nil {
				cur.Inline = true
			}
		case "pure":
			if cur != nil {
				cur.Pure = true
			}
		case "trusted":
			if cur != nil {
				cur.Trusted = true
			}
		case "assigns":
			if cur != nil {
				cur.Assigns = append(cur.Assigns, r.rest)
			}
		case "uses":
			if cur != nil {
				cur.Uses = append(cur.Uses, strings.Fields(r.rest)...)
			}
		case "binds":
			if f := strings.Fields(r.rest); cur != nil && len(f) == 2 {
				if cur.Binds == nil {
					cur.Binds = map[string]string{}
				}
				cur.Binds[f[0]] = f[1]
			} else {
				sp.Errors = append(sp.Errors, fmt.Sprintf("line %d: binds <captured variable> <function key>", r.line))
			}
		case "dyncallees":
			if cur != nil {
				cur.DynCallees = append(cur.DynCallees, strings.Fields(r.rest)...)
			}
		case "storesite":
			if cur == nil {
				sp.Errors = append(sp.Errors, fmt.Sprintf("line %d: storesite outside func", r.line))
				continue
			}
			f := strings.SplitN(strings.TrimSpace(r.rest), " ", 2)
			if len(f) != 2 {
				sp.Errors = append(sp.Errors, fmt.Sprintf("line %d: storesite needs Type.field and a clause", r.line))
				continue
			}
			r2 := r
			r2.rest = f[1]
			if c, ok := parseClause(r2); ok {
				if c.Label == "" {
					c.Label = strconv.Itoa(len(cur.StoreSites) + 1)
				}
				cur.StoreSites = append(cur.StoreSites, StoreSite{Field: f[0], Clause: c})
			}
		case "callsite":
			if cur == nil {
				sp.Errors = append(sp.Errors, fmt.Sprintf("line %d: callsite outside func", r.line))
				continue
			}
			if c, ok := parseClause(r); ok {
				if c.Label == "" {
					c.Label = strconv.Itoa(len(cur.CallSites) + 1)
				}
				cur.CallSites = append(cur.CallSites, c)
			}
		case "requires", "ensures":
			if cur == nil {
				sp.Errors = append(sp.Errors, fmt.Sprintf("line %d: %s outside func", r.line, r.kw))
				continue
			}
			c, ok := parseClause(r)
			if !ok {
				continue
			}
			if r.kw == "requires" {
				if c.Label == "" {
					c.Label = strconv.Itoa(len(cur.Requires) + 1)
				}
				cur.Requires = append(cur.Requires, c)
			} else {
				if c.Label == "" {
					c.Label = strconv.Itoa(len(cur.Ensures) + 1)
				}
				cur.Ensures = append(cur.Ensures, c)
			}
		case "loop":
			if cur == nil {
				sp.Errors = append(sp.Errors, fmt.Sprintf("line %d: loop outside func", r.line))
				continue
			}
			f := strings.Fields(r.rest)
			n := 0
			if len(f) > 0 {
				n, _ = strconv.Atoi(f[0])
			}
			if n <= 0 {
				sp.Errors = append(sp.Errors, fmt.Sprintf("line %d: loop needs an ordinal", r.line))
				continue
			}
			curLoop = &LoopSpec{Ordinal: n}
			if len(f) > 1 {
				curLoop.Var = strings.Trim(f[1], "()")
			}
			cur.Loops[n] = curLoop
		case "exit":
			if curLoop == nil {
				sp.Errors = append(sp.Errors, fmt.Sprintf("line %d: exit outside loop", r.line))
				continue
			}
			if c, ok := parseClause(r); ok {
				if c.Label == "" {
					c.Label = strconv.Itoa(len(curLoop.Exits) + 1)
				}
				curLoop.Exits = append(curLoop.Exits, c)
			}
		case "invariant", "decreases":
			if curLoop == nil {
				sp.Errors = append(sp.Errors, fmt.Sprintf("line %d: %s outside loop", r.line, r.kw))
				continue
			}
			c, ok := parseClause(r)
			if !ok {
				continue
			}
			if r.kw == "invariant" {
				if c.Label == "" {
					c.Label = strconv.Itoa(len(curLoop.Invariants) + 1)
				}
				curLoop.Invariants = append(curLoop.Invariants, c)
			} else {
				curLoop.Decreases = &c
			}
		case "fieldinv":
			f := strings.SplitN(strings.TrimSpace(r.rest), " ", 2)
			if len(f) != 2 {
				sp.Errors = append(sp.Errors, fmt.Sprintf("line %d: fieldinv needs Type.field and an expression", r.line))
				continue
			}
			sx, _, err := core.ParseSexp(f[1])
			if err != nil || sx == nil {
				sp.Errors = append(sp.Errors, fmt.Sprintf("line %d: cannot parse fieldinv", r.line))
				continue
			}
			sp.FieldInvs[f[0]] = sx
		case "macro":
			xs, err := core.ParseAll(r.rest)
			if err != nil || len(xs) != 2 || xs[0].IsAtom() || len(xs[0].List) == 0 {
				sp.Errors = append(sp.Errors, fmt.Sprintf("line %d: macro needs (name $params...) body", r.line))
				continue
			}
			m := &Macro{Name: xs[0].List[0].Atom, Body: xs[1]}
			for _, a := range xs[0].List[1:] {
				m.Params = append(m.Params, a.Atom)
			}
			sp.Macros[m.Name] = m
		case "ghost":
			sp.Ghost = append(sp.Ghost, r.rest)
			cur, curLoop = cur, curLoop
		case "axiom":
			rest := strings.TrimSpace(r.rest)
			name := ""
			if strings.HasPrefix(rest, "[") {
				if j := strings.Index(rest, "]"); j > 0 {
					name = strings.TrimSpace(rest[1:j])
					rest = strings.TrimSpace(rest[j+1:])
				}
			}
			sp.Axioms = append(sp.Axioms, rest)
			sp.AxiomNames = append(sp.AxiomNames, name)
		case "lemma":
			f := strings.SplitN(strings.TrimSpace(r.rest), "\n", 2)
			hdr := strings.Fields(f[0])
			if len(hdr) == 0 {
				sp.Errors = append(sp.Errors, fmt.Sprintf("line %d: lemma without name", r.line))
				continue
			}
			curLemma = &Lemma{Name: hdr[0], Line: r.line}
			for _, w := range hdr[1:] {
				if strings.HasPrefix(w, "C") {
					curLemma.Props = append(curLemma.Props, w)
				}
			}
			if len(f) > 1 {
				curLemma.Script = f[1]
			}
			sp.Lemmas = append(sp.Lemmas, curLemma)
			cur, curLoop = nil, nil
		case "end":
			cur, curLoop, curLemma = nil, nil, nil
		}
	}
	return sp
}

func stripComments(s string) string {
	var out []string
	for _, l := range strings.Split(s, "\n") {
		if i := strings.Index(l, ";"); i >= 0 {
			l = l[:i]
		}
		out = append(out, l)
	}
	return strings.Join(out, "\n")
}
