#!/usr/bin/env python3
# tools/addclaim.py <func-key> <ID>... : puts a function under the vc engine of the named properties and claims its
# obligation group (<key>/* minus <key>/nooverflow/*).  The minimum starts at 1; tools/tightenmins.py raises it after a clean run.
import json, sys, os
root = os.path.dirname(os.path.dirname(os.path.abspath(__file__)))
key, ids = sys.argv[1], sys.argv[2:]
for i in ids:
    p = f"{root}/claims/{i}.json"
    d = json.load(open(p))
    vc = d["engines"].setdefault("vc", {"funcs": [], "lemmas": []})
    if key.startswith("lemma:"):
        if key[6:] not in vc["lemmas"]:
            vc["lemmas"].append(key[6:])
        pat = "lemma/" + key[6:]
        if not any(c["match"] == pat for c in d["claims"]):
            d["claims"].append({"match": pat, "min": 1})
    else:
        if key not in vc["funcs"]:
            vc["funcs"].append(key)
        pat = key + "/*"
        if not any(c["match"] == pat for c in d["claims"]):
            d["claims"].append({"match": pat, "min": 1, "except": [key + "/nooverflow/*"]})
    json.dump(d, open(p, "w"), indent=1, ensure_ascii=False)
    print("claimed", key, "under", i)
