package bounded

// Running the in-package driver (harness/driver_test.go.txt) through
// `go test -overlay`: real Compile, real Dump; nothing is written into the repo.

import (
	"bufio"
	"bytes"
	"encoding/json"
	"fmt"
	"os"
	"os/exec"
	"path/filepath"
	"strings"
	"sync/atomic"

	"govc/internal/core"
)

// Job is one compilation request (mirrors vJob of the driver).
type Job struct {
	ID      int      `json:"id"`
	Src     string   `json:"src"`
	Mask    int      `json:"mask"`
	Ev      bool     `json:"ev"`
	Dir     bool     `json:"dir"`
	Costs   string   `json:"costs"`
	Undef   bool     `json:"undef"`
	Redump  bool     `json:"redump"`
	FPOnly  bool     `json:"fponly"`
	Run     bool     `json:"run"`
	Gen     string   `json:"gen"`
	Table   bool     `json:"table,omitempty"`
	Samples []Sample `json:"samples,omitempty"`
}

type XLoopEv struct {
	CurtIdx   int16 `json:"idx"`
	NodeType  uint8 `json:"typ"`
	NodeValue XVal  `json:"val"`
}

type XVal struct {
	K  string   `json:"k"`
	B  bool     `json:"b"`
	I  int64    `json:"i"`
	S  string   `json:"s"`
	IL []int64  `json:"il"`
	SL []string `json:"sl"`
	Ev *XLoopEv `json:"ev"`
}

type XNode struct {
	Flag     uint8  `json:"flag"`
	ChildCnt int8   `json:"cc"`
	ScIdx    int16  `json:"sc"`
	OsTop    int16  `json:"os"`
	VarKey   int16  `json:"vk"`
	Val      XVal   `json:"val"`
	Op       string `json:"op"`
}

// XProg is one exported flat program (mirrors vProg of the driver).
type XProg struct {
	ID       int            `json:"id"`
	Err      string         `json:"err"`
	Panic    string         `json:"panic"`
	MaxStack int16          `json:"maxstack"`
	Nodes    []XNode        `json:"nodes"`
	Parent   []int16        `json:"parent"`
	NNodes   int            `json:"nnodes"`
	Dump     string         `json:"dump"`
	Table    string         `json:"table"`
	FP       string         `json:"fp"`
	Calls    map[string]int `json:"calls"`
	WF       []string       `json:"wf"`
	Re       *XProg         `json:"re"`
	RunRes   string         `json:"runres"`
	Samples  []SampleRes    `json:"samples"`
	Done     int            `json:"done"`
}

func (p *XProg) OK() bool { return p != nil && p.Err == "" && p.Panic == "" }

// node type constants of the engine (engine.go); re-checked against the SSA
// constants is not possible, they are literal in the code. The driver exports
// raw flags; the symbolic executor never interprets them itself (the real code
// does), these are only used by the reference side (fast nodes) and samples.
const (
	ntMask     = 7
	ntConstant = 1
	ntVariable = 2
	ntOperator = 3
	ntFastOp   = 4
	ntCond     = 5
	ntEvent    = 7
)

var workSeq int64

func goEnv(extra ...string) []string {
	env := os.Environ()
	env = append(env, "GOFLAGS=-mod=mod", "GOPROXY=off", "GOSUMDB=off", "GOTOOLCHAIN=local")
	return append(env, extra...)
}

func harnessFile(env *core.Env, name string) string {
	return filepath.Join(env.Verif, "harness", name)
}

// writeOverlay maps non-existent test files of the repo to harness templates.
func writeOverlay(env *core.Env, dir string, files map[string]string) (string, error) {
	repl := map[string]string{}
	for inRepo, tmpl := range files {
		repl[filepath.Join(env.Repo, inRepo)] = tmpl
	}
	b, _ := json.MarshalIndent(map[string]interface{}{"Replace": repl}, "", " ")
	ov := filepath.Join(dir, "ov.json")
	return ov, os.WriteFile(ov, b, 0o644)
}

// RunDriver compiles the jobs with the real pipeline and returns the exported
// programs indexed by job id.
func RunDriver(env *core.Env, jobs []Job) (map[int]*XProg, string, error) {
	dir := filepath.Join(env.Work, fmt.Sprintf("drv%03d", atomic.AddInt64(&workSeq, 1)))
	if err := os.MkdirAll(dir, 0o755); err != nil {
		return nil, "", err
	}
	in, out := filepath.Join(dir, "jobs.jsonl"), filepath.Join(dir, "progs.jsonl")
	var buf bytes.Buffer
	for _, j := range jobs {
		b, _ := json.Marshal(j)
		buf.Write(b)
		buf.WriteByte('\n')
	}
	if err := os.WriteFile(in, buf.Bytes(), 0o644); err != nil {
		return nil, "", err
	}
	ov, err := writeOverlay(env, dir, map[string]string{"zz_verif_driver_test.go": harnessFile(env, "driver_test.go.txt")})
	if err != nil {
		return nil, "", err
	}
	args := []string{"test", "-tags", "verif", "-overlay", ov, "-vet=off", "-count=1", "-timeout", "300s", "-run", "TestVerifExport", "."}
	cmd := exec.Command("go", args...)
	cmd.Dir = env.Repo
	cmd.Env = goEnv("VERIF_IN="+in, "VERIF_OUT="+out)
	cmdline := fmt.Sprintf("cd %s && VERIF_IN=%s VERIF_OUT=%s go %s", env.Repo, in, out, strings.Join(args, " "))
	o, err := cmd.CombinedOutput()
	if err != nil {
		return nil, cmdline, fmt.Errorf("driver failed: %v\n%s", err, trunc(string(o), 3000))
	}
	f, err := os.Open(out)
	if err != nil {
		return nil, cmdline, fmt.Errorf("driver wrote no output: %v\n%s", err, trunc(string(o), 2000))
	}
	defer f.Close()
	res := map[int]*XProg{}
	sc := bufio.NewScanner(f)
	sc.Buffer(make([]byte, 1<<20), 1<<30)
	done := -1
	for sc.Scan() {
		if len(sc.Bytes()) == 0 {
			continue
		}
		p := &XProg{}
		if err := json.Unmarshal(sc.Bytes(), p); err != nil {
			return nil, cmdline, fmt.Errorf("driver output: %v", err)
		}
		if p.ID == -1 {
			done = p.Done
			continue
		}
		res[p.ID] = p
	}
	if done != len(jobs) {
		return nil, cmdline, fmt.Errorf("driver processed %d of %d jobs\n%s", done, len(jobs), trunc(string(o), 2000))
	}
	os.Remove(out)
	return res, cmdline, nil
}

func trunc(s string, n int) string {
	if len(s) > n {
		return s[:n] + "…"
	}
	return s
}

// ConfigName renders mask / event mode / cost pool for obligation names: m05.ev0[.cname]
func ConfigName(mask int, ev bool, costs string) string {
	e := 0
	if ev {
		e = 1
	}
	s := fmt.Sprintf("m%02d.ev%d", mask, e)
	if costs != "" && costs != "empty" {
		s += ".c" + costs
	}
	return s
}
