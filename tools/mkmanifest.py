#!/usr/bin/env python3
# Regenerates /verif/MANIFEST.json from tools/manifest_table.json (one entry per claimed property)
# and lists every other property under not_applicable with its recorded reason.
import json, os
here = os.path.dirname(os.path.abspath(__file__))
root = os.path.dirname(here)
props = [json.loads(l)['id'] for l in open(os.path.join(root, 'properties.jsonl'))]
table = json.load(open(os.path.join(here, 'manifest_table.json')))
import subprocess
try:
    hooks_commits = subprocess.run(['git', '-C', '/repo', 'log', '--reverse', '--format=%h', '--', 'verif_contracts.go'], capture_output=True, text=True).stdout.split()
except Exception:
    hooks_commits = []
if not hooks_commits:
    hooks_commits = table.get('_hook_commits', [])
checks = []
na = []
for p in props:
    t = table.get(p)
    if t and t.get('claimed'):
        checks.append({
            "property_id": p,
            "quick_cmd": "./check %s --tier quick" % p,
            "thorough_cmd": "./check %s --tier thorough" % p,
            "evidence_file": "/verif/evidence/%s.json" % p,
            "replay_cmd_template": "./check %s --replay {path}" % p,
            "engine": "govc",
            "level_claimed": {"category": t["category"], "text": t["text"], "design_ref": t.get("design_ref", "DESIGN.md section 8, " + p)},
            "level_note": t["note"],
            "technique": t["technique"],
        })
    else:
        na.append({"property_id": p, "reason": (t or {}).get("reason", "not built yet (build in progress; see DESIGN.md section 13)")})
m = {
    "version": 1,
    "setup_cmd": "cd /verif/govc && GOFLAGS=-mod=mod GOPROXY=off GOSUMDB=off GOTOOLCHAIN=local go build -o ../bin/govc .",
    "hooks": {"guard": "verif",
              "enable": "-tags verif (only effect: the comment-only contract file /repo/verif_contracts.go is parsed by go/packages; no code is added to the package)",
              "baseline_off_cmd": "cd /repo && go test -vet=off -count=1 ./...",
              "source_commits": hooks_commits, "add_only": True},
    "engines": [{"name": "govc", "path": "/verif/govc", "serves_properties": [c["property_id"] for c in checks],
                 "kind_free_text": "self-written contract verifier for Go: contracts as //@ comments in the guarded file /repo/verif_contracts.go, verification conditions generated from go/ssa of /repo's working tree (passive encoding, loops cut by invariants, calls by contract, Go run-time checks as safety obligations), discharged by a z3 4.8 / z3 5.1 / cvc5 portfolio; SSA-enumeration sweeps for frame conditions; bounded tier = the same SSA executed symbolically on enumerated compiled programs"}],
    "checks": checks,
    "notes": table.get("_notes", "see DESIGN.md"),
    "not_applicable": na,
}
json.dump(m, open(os.path.join(root, 'MANIFEST.json'), 'w'), indent=1)
print("checks:", [c["property_id"] for c in checks], "not_applicable:", [n["property_id"] for n in na])
