package vc

import (
	"fmt"
	"go/ast"
	"go/constant"
	"go/token"
	"go/types"
	"sort"
	"strings"

	"golang.org/x/tools/go/ssa"

	"govc/internal/core"
	"govc/internal/load"
)

// Gen translates one function under contract.
type Gen struct {
	P    *load.Program
	U    *Universe
	Spec *Spec
	Eng  *Engine

	key string
	fn  *ssa.Function
	con *Contract

	decls           []string
	asserts         []string
	declared        map[string]bool
	bases           map[string]*baseInfo
	baseOrder       []string
	nver            int
	nfresh          int
	obls            []*pending
	anchors         map[string]int
	reject          string
	dry             bool
	cellClo         map[string]*Closure
	loopMods        map[string]map[string]bool // loop id (frame prefix + header) -> bases havocked at the header
	modGrew         bool
	usedAssumptions map[string]bool
	retSites        []retSite
	top             *frame
	inlineSeq       int
	horizon         int // when > 0: number of asserts visible to obligations added now (loop / post obligations added after translation)
}

type pending struct {
	name, kind, detail, pos string
	cond                    string // must hold (query asserts its negation)
	canary                  bool
	nasserts                int // number of asserts visible to this obligation (all, in fact)
	values                  []string
	rets                    []string
	decided                 string // "ok" / "fail": decided syntactically, no solver query
}

type retSite struct {
	cond  string
	vals  []*Term
	st    *state
	block *ssa.BasicBlock
	pos   token.Pos
	hz    int
}

type frame struct {
	g      *Gen
	fn     *ssa.Function
	key    string
	prefix string
	env    map[ssa.Value]*Term
	parent *frame // dynamic caller
	con    *Contract
	depth  int
	inline string // inline chain for obligation anchors
	clo    *Closure
	params []*Term

	backEdge  map[[2]int]bool
	heads     map[int]int // header block -> loop ordinal
	loopBody  map[int]map[int]bool
	order     []*ssa.BasicBlock
	in        map[int]*state
	out       map[int]*state
	edge      map[[2]int]string
	outHz     map[int]int // number of asserts when the block's translation finished
	headSt    map[int]*state
	entry     *state
	rets      []retSite
	idom      map[int]int
	domDepth  map[int]int
	locals    map[*ssa.Alloc]bool
	iterOf    map[ssa.Value]*mapIter
	sortPerm  string
	curBlock  *ssa.BasicBlock
	curSplits []string // selection conditions of the incoming edges of the block being translated (join blocks only)
}

func (g *Gen) rejectf(format string, a ...interface{}) {
	if g.reject == "" {
		g.reject = fmt.Sprintf(format, a...)
	}
}

func (g *Gen) declare(name, sort string) {
	if g.declared[name] {
		return
	}
	g.declared[name] = true
	g.decls = append(g.decls, "(declare-const "+name+" "+sort+")")
}

func (g *Gen) declareFun(name, sig string) {
	if g.declared[name] || stubFunSet[name] {
		return
	}
	if _, ok := g.U.oracleFuns[name]; ok {
		return
	}
	if name == "timeUnix" {
		if _, ok := g.U.structs["S_Time"]; ok {
			return
		}
	}
	if strings.HasPrefix(name, "dynres_") && len(name) > 9 && name[7] >= '0' && name[7] <= '2' {
		switch name[9:] {
		case "Val", "Err", "Int", "Bool", "Slice", "Real":
			return
		}
	}
	if false {
		return
	}
	g.declared[name] = true
	g.decls = append(g.decls, "(declare-fun "+name+" "+sig+")")
}

func (g *Gen) assert(s string) { g.asserts = append(g.asserts, "(assert "+s+")") }

func (g *Gen) fresh(prefix, sort string) string {
	g.nfresh++
	n := fmt.Sprintf("%s!%d", sanitizeSym(prefix), g.nfresh)
	g.declare(n, sort)
	return n
}

func sanitizeSym(s string) string {
	return nonIdent.ReplaceAllString(s, "_")
}

// anchored obligation name, stable under unrelated edits: kind + source text (+ ordinal for duplicates)
func (g *Gen) oblName(kind, anchor string) string {
	anchor = strings.TrimSpace(anchor)
	if len(anchor) > 60 {
		anchor = anchor[:60]
	}
	n := g.key + "/" + kind + "/" + anchor
	g.anchors[n]++
	if c := g.anchors[n]; c > 1 {
		n = fmt.Sprintf("%s#%d", n, c)
	}
	return n
}

func (g *Gen) addObl(fr *frame, st *state, kind, anchor, detail string, pos token.Pos, cond string) {
	if fr != nil && fr.inline != "" {
		anchor = anchor + "@" + fr.inline
	}
	h := len(g.asserts)
	if g.horizon > 0 {
		h = g.horizon
	}
	g.obls = append(g.obls, &pending{name: g.oblName(kind, anchor), kind: kind, detail: detail, pos: g.P.PosString(pos),
		cond: "(=> " + st.cur + " " + cond + ")", nasserts: h})
}

// safety obligation; afterwards the path continues only if the check passed.
func (g *Gen) safety(fr *frame, st *state, what, anchor string, pos token.Pos, cond string) {
	if fr != nil && fr.curBlock != nil && len(fr.curSplits) > 1 {
		// at a join block: one obligation per incoming edge (same name, suffix .inN)
		for i, sp := range fr.curSplits {
			sst := &state{cur: "(and " + st.cur + " " + sp + ")", heap: st.heap}
			g.addObl(fr, sst, "safety", fmt.Sprintf("%s:%s.in%d", what, anchor, i), what, pos, cond)
		}
	} else {
		g.addObl(fr, st, "safety", what+":"+anchor, what, pos, cond)
	}
	g.safetyContinue(st, cond)
}

func (g *Gen) safetyContinue(st *state, cond string) {
	nc := g.fresh("ok", "Bool")
	g.assert("(= " + nc + " (and " + st.cur + " " + cond + "))")
	st.cur = nc
}

func init() { _ = 0 }

func constString(c *ssa.Const) string {
	if c.Value == nil {
		return ""
	}
	if c.Value.Kind() == constant.String {
		return constant.StringVal(c.Value)
	}
	return c.Value.ExactString()
}

func smtInt(s string) string {
	if strings.HasPrefix(s, "-") {
		return "(- " + s[1:] + ")"
	}
	return s
}

func (g *Gen) constTerm(c *ssa.Const) *Term {
	t := c.Type()
	if c.Value == nil {
		return &Term{S: g.zero(t), T: t}
	}
	switch c.Value.Kind() {
	case constant.Bool:
		return &Term{S: fmt.Sprint(constant.BoolVal(c.Value)), T: t}
	case constant.Int:
		if g.U.sortOf(t) == "Real" {
			return &Term{S: smtReal(c.Value.ExactString()), T: t}
		}
		return &Term{S: smtInt(c.Value.ExactString()), T: t}
	case constant.String:
		return &Term{S: g.U.StrLit(constant.StringVal(c.Value)), T: t}
	case constant.Float:
		if g.U.sortOf(t) == "Int" {
			return &Term{S: smtInt(c.Value.ExactString()), T: t}
		}
		f, _ := constant.Float64Val(c.Value)
		if f > 1e18 || f < -1e18 {
			// huge constants (math.MaxFloat64 etc.): symbolic
			n := g.fresh("bigfloat", "Real")
			return &Term{S: n, T: t}
		}
		r := c.Value.ExactString()
		return &Term{S: smtReal(r), T: t}
	}
	g.rejectf("constant kind %v", c.Value.Kind())
	return &Term{S: "0", T: t}
}

func smtReal(exact string) string {
	neg := strings.HasPrefix(exact, "-")
	if neg {
		exact = exact[1:]
	}
	var s string
	if i := strings.Index(exact, "/"); i >= 0 {
		s = "(/ " + exact[:i] + ".0 " + exact[i+1:] + ".0)"
	} else if strings.Contains(exact, ".") {
		s = exact
	} else {
		s = exact + ".0"
	}
	if neg {
		return "(- " + s + ")"
	}
	return s
}

// ---------------------------------------------------------------- frames

func (g *Gen) newFrame(fn *ssa.Function, parent *frame, clo *Closure) *frame {
	fr := &frame{g: g, fn: fn, env: map[ssa.Value]*Term{}, parent: parent, clo: clo,
		in: map[int]*state{}, out: map[int]*state{}, edge: map[[2]int]string{}, headSt: map[int]*state{}, outHz: map[int]int{},
		iterOf: map[ssa.Value]*mapIter{}}
	fr.key = g.P.Keys[fn]
	if fr.key == "" {
		fr.key = fn.Name()
	}
	if parent == nil {
		fr.prefix = ""
	} else {
		g.inlineSeq++
		fr.prefix = fmt.Sprintf("i%d_", g.inlineSeq)
		fr.depth = parent.depth + 1
		short := fr.key
		if i := strings.LastIndex(short, "."); i >= 0 {
			short = short[i+1:]
		}
		if parent.inline != "" {
			fr.inline = parent.inline + ">" + short
		} else {
			fr.inline = short
		}
	}
	if c := g.Spec.Contracts[fr.key]; c != nil {
		fr.con = c
	}
	fr.analyse()
	return fr
}

// analyse computes back edges, loop headers (ordinals in block order), natural
// loop bodies, a topological order ignoring back edges, and dominators.
func (fr *frame) analyse() {
	fn := fr.fn
	fr.backEdge = map[[2]int]bool{}
	fr.heads = map[int]int{}
	fr.loopBody = map[int]map[int]bool{}
	if len(fn.Blocks) == 0 {
		return
	}
	st := map[int]int{}
	var dfs func(b *ssa.BasicBlock)
	dfs = func(b *ssa.BasicBlock) {
		st[b.Index] = 1
		for _, s := range b.Succs {
			switch st[s.Index] {
			case 1:
				fr.backEdge[[2]int{b.Index, s.Index}] = true
			case 0:
				dfs(s)
			}
		}
		st[b.Index] = 2
	}
	dfs(fn.Blocks[0])
	var hs []int
	seen := map[int]bool{}
	for e := range fr.backEdge {
		if !seen[e[1]] {
			seen[e[1]] = true
			hs = append(hs, e[1])
		}
	}
	sort.Ints(hs)
	for i, h := range hs {
		fr.heads[h] = i + 1
	}
	// natural loops
	for e := range fr.backEdge {
		h := e[1]
		body := fr.loopBody[h]
		if body == nil {
			body = map[int]bool{h: true}
			fr.loopBody[h] = body
		}
		stack := []int{e[0]}
		for len(stack) > 0 {
			n := stack[len(stack)-1]
			stack = stack[:len(stack)-1]
			if body[n] {
				continue
			}
			body[n] = true
			for _, p := range fn.Blocks[n].Preds {
				stack = append(stack, p.Index)
			}
		}
	}
	// topological order (reachable blocks only)
	indeg := map[int]int{}
	for _, b := range fn.Blocks {
		if st[b.Index] == 0 {
			continue
		}
		for _, s := range b.Succs {
			if !fr.backEdge[[2]int{b.Index, s.Index}] {
				indeg[s.Index]++
			}
		}
	}
	q := []*ssa.BasicBlock{fn.Blocks[0]}
	for len(q) > 0 {
		// pick the smallest index for determinism
		sort.Slice(q, func(i, j int) bool { return q[i].Index < q[j].Index })
		b := q[0]
		q = q[1:]
		fr.order = append(fr.order, b)
		for _, s := range b.Succs {
			if fr.backEdge[[2]int{b.Index, s.Index}] {
				continue
			}
			indeg[s.Index]--
			if indeg[s.Index] == 0 {
				q = append(q, s)
			}
		}
	}
	fr.idom = map[int]int{}
	fr.domDepth = map[int]int{}
	for _, b := range fn.Blocks {
		if d := b.Idom(); d != nil {
			fr.idom[b.Index] = d.Index
		} else {
			fr.idom[b.Index] = -1
		}
	}
	for _, b := range fr.order {
		if p := fr.idom[b.Index]; p >= 0 {
			fr.domDepth[b.Index] = fr.domDepth[p] + 1
		}
	}
	fr.locals = map[*ssa.Alloc]bool{}
}

func (fr *frame) dominates(a, b int) bool {
	for b >= 0 {
		if a == b {
			return true
		}
		b = fr.idom[b]
	}
	return false
}

func (fr *frame) name(v ssa.Value) string {
	return fr.prefix + sanitizeSym(v.Name())
}

// val returns the term of an SSA value in this frame.
func (fr *frame) val(v ssa.Value) *Term {
	g := fr.g
	switch x := v.(type) {
	case *ssa.Const:
		return g.constTerm(x)
	case *ssa.Function:
		return &Term{S: g.U.funcID(x), T: x.Type(), Clo: &Closure{Fn: x}}
	case *ssa.Global:
		el := x.Type().(*types.Pointer).Elem()
		t := &Term{S: g.U.globalAddr(x), T: x.Type()}
		t.Loc = g.locOfPointer(t)
		_ = el
		return t
	case *ssa.Builtin:
		return &Term{S: "0", T: x.Type()}
	}
	if t, ok := fr.env[v]; ok {
		return t
	}
	if fv, ok := v.(*ssa.FreeVar); ok {
		// free variable of a closure
		for i, f := range fr.fn.FreeVars {
			if f == fv {
				if fr.clo != nil && i < len(fr.clo.Bindings) {
					fr.env[v] = fr.clo.Bindings[i]
					return fr.clo.Bindings[i]
				}
			}
		}
	}
	g.rejectf("use of untranslated value %s (%T) in %s", v.Name(), v, fr.key)
	t := &Term{S: "0", T: v.Type()}
	fr.env[v] = t
	return t
}

// declareValue introduces a fresh constant for an SSA value with its type invariant.
func (fr *frame) symbolic(name string, t types.Type, st *state) *Term {
	g := fr.g
	if tup, ok := t.(*types.Tuple); ok {
		r := &Term{T: t}
		for i := 0; i < tup.Len(); i++ {
			r.Tuple = append(r.Tuple, fr.symbolic(fmt.Sprintf("%s_%d", name, i), tup.At(i).Type(), st))
		}
		return r
	}
	s := g.U.sortOf(t)
	if s == "" {
		g.rejectf("value of unrepresentable type %s", t)
		s = "Int"
	}
	n := g.fresh(name, s)
	g.assumeType(t, n, st, true)
	return &Term{S: n, T: t}
}

// assumeType asserts the type invariant of a value (DESIGN 6.7).
func (g *Gen) assumeType(t types.Type, s string, st *state, uncond bool) {
	inv := g.typeInv(t, s, st)
	if inv == "" {
		return
	}
	if uncond || st == nil || st.cur == "true" {
		g.assert(inv)
	} else {
		g.assert("(=> " + st.cur + " " + inv + ")")
	}
}

func (g *Gen) typeInv(t types.Type, s string, st *state) string {
	next := "next!0"
	if st != nil {
		next = g.base(st, "next", "Int", 0, false)
	} else {
		g.base(&state{heap: map[string]string{}}, "next", "Int", 0, false)
	}
	switch x := t.Underlying().(type) {
	case *types.Basic:
		if lo, hi, ok := intRange(t); ok {
			return "(and (<= " + lo + " " + s + ") (<= " + s + " " + hi + "))"
		}
	case *types.Slice:
		return "(and (wfslice " + s + ") (< (s_arr " + s + ") " + next + "))"
	case *types.Pointer, *types.Map, *types.Chan:
		return "(< " + s + " " + next + ")"
	case *types.Interface:
		if g.U.sortOf(t) == "Val" {
			return "(wfval " + s + " " + next + ")"
		}
	case *types.Struct:
		d := g.U.structInfo(t)
		var parts []string
		for i := 0; i < x.NumFields(); i++ {
			if inv := g.typeInv(x.Field(i).Type(), "("+d.fnames[i]+" "+s+")", st); inv != "" {
				parts = append(parts, inv)
			}
		}
		if len(parts) > 0 {
			return "(and " + strings.Join(parts, " ") + ")"
		}
	}
	return ""
}

// ---------------------------------------------------------------- translation of one function body

// run translates the body of fr.fn starting from entry state st0 with the given
// parameter terms; it fills fr.rets.
func (fr *frame) run(params []*Term, st0 *state) {
	g := fr.g
	fn := fr.fn
	if len(fn.Blocks) == 0 {
		g.rejectf("function %s has no body", fr.key)
		return
	}
	fr.params = params
	for i, p := range fn.Params {
		if i < len(params) {
			fr.env[p] = params[i]
		}
	}
	fr.entry = st0
	fr.classifyAllocs()
	for _, b := range fr.order {
		var st *state
		if b.Index == 0 {
			st = st0.clone()
		} else {
			var conds []string
			var sts []*state
			for _, p := range b.Preds {
				if fr.backEdge[[2]int{p.Index, b.Index}] {
					continue
				}
				ps, ok := fr.out[p.Index]
				if !ok {
					continue // unreachable predecessor
				}
				c := fr.edge[[2]int{p.Index, b.Index}]
				conds = append(conds, "(and "+ps.cur+" "+c+")")
				sts = append(sts, ps)
			}
			if len(sts) == 0 {
				continue
			}
			ex := g.fresh(fr.prefix+fmt.Sprintf("ex_b%d", b.Index), "Bool")
			if len(conds) == 1 {
				g.assert("(= " + ex + " " + conds[0] + ")")
			} else {
				g.assert("(= " + ex + " (or " + strings.Join(conds, " ") + "))")
			}
			st = g.mergeStates(conds, sts, ex)
		}
		fr.in[b.Index] = st.clone()
		fr.curBlock, fr.curSplits = b, nil
		if _, isHead := fr.heads[b.Index]; !isHead && b.Index != 0 && len(b.Preds) >= 3 {
			for _, p := range b.Preds {
				if ps, ok := fr.out[p.Index]; ok && !fr.backEdge[[2]int{p.Index, b.Index}] {
					fr.curSplits = append(fr.curSplits, "(and "+ps.cur+" "+fr.edge[[2]int{p.Index, b.Index}]+")")
				}
			}
		}
		if ord, isHead := fr.heads[b.Index]; isHead {
			fr.enterLoop(b, ord, st)
		}
		stop := false
		for _, ins := range b.Instrs {
			if fr.instr(b, ins, st) {
				stop = true
				break
			}
		}
		_ = stop
		fr.out[b.Index] = st
		fr.outHz[b.Index] = len(g.asserts)
	}
	// loop obligations (establishment, preservation, variants)
	for _, b := range fr.order {
		if ord, isHead := fr.heads[b.Index]; isHead {
			fr.loopObligations(b, ord)
		}
	}
	g.horizon = 0
}

func (fr *frame) loopID(b *ssa.BasicBlock) string {
	return fmt.Sprintf("%s|%s|%d", fr.key, fr.inline, b.Index)
}

// enterLoop havocs the loop-modified state at a header and assumes the invariant.
func (fr *frame) enterLoop(b *ssa.BasicBlock, ord int, st *state) {
	g := fr.g
	pre := st.clone()
	id := fr.loopID(b)
	mods := g.loopMods[id]
	var ms []string
	for m := range mods {
		ms = append(ms, m)
	}
	sort.Strings(ms)
	for _, m := range ms {
		if _, ok := g.bases[m]; !ok {
			continue
		}
		nv := g.newVersion(st, m)
		if m == "next" {
			g.assert("(>= " + nv + " " + g.base(pre, "next", "Int", 0, false) + ")")
		}
	}
	// phis are havocked
	for _, ins := range b.Instrs {
		ph, ok := ins.(*ssa.Phi)
		if !ok {
			break
		}
		fr.env[ph] = fr.symbolic(fr.name(ph)+"_"+sanitizeSym(ph.Comment), ph.Type(), st)
	}
	fr.headSt[b.Index] = st.clone()
	if g.dry {
		return
	}
	// built-in invariant of range-over-slice loops: the hidden index starts at -1 and only grows
	for _, ins := range b.Instrs {
		ph, ok := ins.(*ssa.Phi)
		if !ok {
			break
		}
		if ph.Comment == "rangeindex" {
			g.assert("(=> " + st.cur + " " + fr.autoRange(b, ph, fr.env[ph].S) + ")")
		}
	}
	// assume the invariant
	if fr.con != nil {
		if ls := fr.con.Loops[ord]; ls != nil {
			for _, inv := range ls.Invariants {
				sc := &specCtx{fr: fr, st: st, old: fr.entryState(), block: b, phiPred: -1}
				t := sc.tr(inv.Expr)
				if sc.err != "" {
					g.rejectf("loop %d invariant [%s] of %s: %s", ord, inv.Label, fr.key, sc.err)
					continue
				}
				g.assert("(=> " + st.cur + " " + t + ")")
			}
		}
	}
}

func (fr *frame) entryState() *state {
	// the entry state of the top-level function (for old(...))
	f := fr
	for f.parent != nil {
		f = f.parent
	}
	return f.entry
}

func (fr *frame) loopObligations(b *ssa.BasicBlock, ord int) {
	g := fr.g
	id := fr.loopID(b)
	head := fr.headSt[b.Index]
	if head == nil {
		return
	}
	// discover modified bases along back edges (dry runs iterate to a fixpoint)
	for _, p := range b.Preds {
		if !fr.backEdge[[2]int{p.Index, b.Index}] {
			continue
		}
		ps := fr.out[p.Index]
		if ps == nil {
			continue
		}
		for k, v := range ps.heap {
			hv, ok := head.heap[k]
			if !ok {
				hv = k + "!0"
			}
			if v != hv {
				if bi := g.bases[k]; bi != nil && bi.local && !strings.HasPrefix(k, "L_"+fr.prefix) && false {
					continue
				}
				if g.loopMods[id] == nil {
					g.loopMods[id] = map[string]bool{}
				}
				if !g.loopMods[id][k] {
					g.loopMods[id][k] = true
					g.modGrew = true
				}
			}
		}
	}
	if g.dry {
		return
	}
	// the built-in range-index invariant is checked like any other
	for pi, p := range b.Preds {
		ps := fr.out[p.Index]
		if ps == nil {
			continue
		}
		for _, ins := range b.Instrs {
			ph, ok := ins.(*ssa.Phi)
			if !ok {
				break
			}
			if ph.Comment != "rangeindex" {
				continue
			}
			g.horizon = fr.outHz[p.Index]
			if g.horizon == 0 {
				g.horizon = 1
			}
			est := &state{cur: "(and " + ps.cur + " " + fr.edge[[2]int{p.Index, b.Index}] + ")", heap: ps.heap}
			g.addObl(fr, est, "inv", fmt.Sprintf("loop%d[auto-range]/from-b%s", ord, edgeTag(fr, p, b)), "range index stays within [-1, len)", b.Instrs[0].Pos(), fr.autoRange(b, ph, fr.val(ph.Edges[pi]).S))
		}
	}
	g.horizon = 0
	var ls *LoopSpec
	if fr.con != nil {
		ls = fr.con.Loops[ord]
	}
	if ls == nil {
		return
	}
	fr.exitObligations(b, ord, ls)
	if ls.Var != "" {
		found := false
		lv := mapRenamed(g.Eng.renameFor(fr.key, fr.fn), ls.Var)
		for _, ins := range b.Instrs {
			if ph, ok := ins.(*ssa.Phi); ok && ph.Comment == lv {
				found = true
			}
		}
		if !found {
			g.rejectf("loop %d of %s: no loop-carried variable %q at the header (contract no longer attaches)", ord, fr.key, ls.Var)
		}
	}
	for pi, p := range b.Preds {
		ps := fr.out[p.Index]
		if ps == nil {
			continue
		}
		isBack := fr.backEdge[[2]int{p.Index, b.Index}]
		// obligations of this edge see only what was asserted up to the end of the source block:
		// in particular the entry obligation never sees the assumption of the invariant it justifies
		g.horizon = fr.outHz[p.Index]
		if g.horizon == 0 {
			g.horizon = 1
		}
		est := &state{cur: "(and " + ps.cur + " " + fr.edge[[2]int{p.Index, b.Index}] + ")", heap: ps.heap}
		// case split: when the edge comes from a merge block that only jumps here (for.post), one
		// obligation per way of reaching that block keeps each query a single control path family
		var splits []string
		var splitTags []string
		if isBack {
			splits, splitTags = fr.pathSplits(p, 0)
		}
		if len(splits) == 0 {
			splits, splitTags = []string{"true"}, []string{""}
		}
		for _, inv := range ls.Invariants {
			conj := splitConj(inv.Expr)
			for ci, cx := range conj {
				sc := &specCtx{fr: fr, st: est, old: fr.entryState(), block: b, phiPred: pi}
				t := sc.tr(cx)
				if sc.err != "" {
					g.rejectf("loop %d invariant [%s] of %s: %s", ord, inv.Label, fr.key, sc.err)
					continue
				}
				kind := "inv-entry"
				if isBack {
					kind = "inv-preserve"
				}
				label := inv.Label
				if len(conj) > 1 {
					label = fmt.Sprintf("%s.%d", inv.Label, ci+1)
				}
				for si, sp := range splits {
					sst := est
					if sp != "true" {
						sst = &state{cur: "(and " + est.cur + " " + sp + ")", heap: est.heap}
					}
					g.addObl(fr, sst, "inv", fmt.Sprintf("loop%d[%s]/%s/from-b%s%s", ord, label, kind, edgeTag(fr, p, b), splitTags[si]), fmt.Sprintf("loop %d invariant %s (%s)", ord, label, kind), b.Instrs[0].Pos(), t)
				}
			}
		}
		if isBack && ls.Decreases != nil {
			scH := &specCtx{fr: fr, st: head, old: fr.entryState(), block: b, phiPred: -1}
			vh := scH.tr(ls.Decreases.Expr)
			scB := &specCtx{fr: fr, st: est, old: fr.entryState(), block: b, phiPred: pi}
			vb := scB.tr(ls.Decreases.Expr)
			if scH.err != "" || scB.err != "" {
				g.rejectf("loop %d variant of %s: %s%s", ord, fr.key, scH.err, scB.err)
				continue
			}
			for si, sp := range splits {
				sst := est
				if sp != "true" {
					sst = &state{cur: "(and " + est.cur + " " + sp + ")", heap: est.heap}
				}
				g.addObl(fr, sst, "variant", fmt.Sprintf("loop%d/from-b%s%s", ord, edgeTag(fr, p, b), splitTags[si]), fmt.Sprintf("loop %d variant decreases and is bounded below", ord), b.Instrs[0].Pos(),
					"(and (>= "+vh+" 0) (< "+vb+" "+vh+"))")
			}
		}
	}
}

// rangeLenTerm is the bound a range-over-slice/array header compares (index+1) with ("" if b is no such header).
func (fr *frame) rangeLenTerm(b *ssa.BasicBlock) string {
	var ph *ssa.Phi
	for _, ins := range b.Instrs {
		if p, ok := ins.(*ssa.Phi); ok && p.Comment == "rangeindex" {
			ph = p
		}
	}
	if ph == nil {
		return ""
	}
	var next ssa.Value
	for _, ins := range b.Instrs {
		if bo, ok := ins.(*ssa.BinOp); ok {
			if bo.Op == token.ADD && bo.X == ph {
				next = bo
			}
			if bo.Op == token.LSS && next != nil && bo.X == next {
				switch y := bo.Y.(type) {
				case *ssa.Const:
					return fr.g.constTerm(y).S
				default:
					if t, ok := fr.env[bo.Y]; ok {
						return t.S
					}
				}
			}
		}
	}
	return ""
}

// exitObligations: the `exit` clauses of a loop must hold on every edge into the loop's exit block (the successor
// of the header outside the loop): the normal exit and every break.  Returns from inside the loop go elsewhere.
func (fr *frame) exitObligations(b *ssa.BasicBlock, ord int, ls *LoopSpec) {
	g := fr.g
	if len(ls.Exits) == 0 {
		return
	}
	body := fr.loopBody[b.Index]
	var done *ssa.BasicBlock
	for _, s := range b.Succs {
		if !body[s.Index] {
			done = s
		}
	}
	if done == nil {
		g.rejectf("loop %d of %s: the header has no exit edge, exit clauses cannot attach", ord, fr.key)
		return
	}
	for _, p := range done.Preds {
		if p != b && !fr.dominates(b.Index, p.Index) {
			continue
		}
		ps := fr.out[p.Index]
		if ps == nil {
			continue
		}
		g.horizon = fr.outHz[p.Index]
		if g.horizon == 0 {
			g.horizon = 1
		}
		est := &state{cur: "(and " + ps.cur + " " + fr.edge[[2]int{p.Index, done.Index}] + ")", heap: ps.heap}
		for _, ex := range ls.Exits {
			sc := &specCtx{fr: fr, st: est, old: fr.entryState(), block: b, phiPred: -1, rangeLen: fr.rangeLenTerm(b)}
			t := sc.tr(ex.Expr)
			if sc.err != "" {
				g.rejectf("loop %d exit [%s] of %s: %s", ord, ex.Label, fr.key, sc.err)
				continue
			}
			kind := "break"
			if p == b {
				kind = "normal"
			}
			g.addObl(fr, est, "exit", fmt.Sprintf("loop%d[%s]/%s/from-b%s", ord, ex.Label, kind, edgeTag(fr, p, done)), fmt.Sprintf("loop %d exit condition %s (%s exit)", ord, ex.Label, kind), b.Instrs[0].Pos(), t)
		}
	}
	g.horizon = 0
}

// autoRange is the built-in invariant of a range-over-slice/array loop for index value v: -1 <= v < len,
// where len is the bound the compiler-generated header compares (index+1) with.
func (fr *frame) autoRange(b *ssa.BasicBlock, ph *ssa.Phi, v string) string {
	var next ssa.Value
	for _, ins := range b.Instrs {
		if bo, ok := ins.(*ssa.BinOp); ok {
			if bo.Op == token.ADD && bo.X == ph {
				next = bo
			}
			if bo.Op == token.LSS && next != nil && bo.X == next {
				switch y := bo.Y.(type) {
				case *ssa.Const:
					return "(and (<= (- 1) " + v + ") (< " + v + " " + fr.g.constTerm(y).S + "))"
				default:
					if t, ok := fr.env[bo.Y]; ok {
						return "(and (<= (- 1) " + v + ") (< " + v + " " + t.S + "))"
					}
				}
			}
		}
	}
	return "(<= (- 1) " + v + ")"
}

// splitConj splits a specification clause into its top-level conjuncts, looking through let binders:
// (let (b) (and c1 c2)) -> (let (b) c1), (let (b) c2). Smaller goals are far easier for the solvers.
func splitConj(x *core.Sexp) []*core.Sexp {
	if x.IsAtom() || len(x.List) == 0 {
		return []*core.Sexp{x}
	}
	switch x.Head() {
	case "and":
		var out []*core.Sexp
		for _, c := range x.List[1:] {
			out = append(out, splitConj(c)...)
		}
		if len(out) == 0 {
			return []*core.Sexp{x}
		}
		return out
	case "let":
		if len(x.List) == 3 {
			var out []*core.Sexp
			for _, c := range splitConj(x.List[2]) {
				out = append(out, core.L(core.A("let"), x.List[1], c))
			}
			return out
		}
	}
	return []*core.Sexp{x}
}

// (horizon is reset by the caller)

// pathSplits enumerates the ways of reaching the end of block p through merge blocks (not loop
// headers), as selection conditions over the reachability constants; at most three levels deep.
func (fr *frame) pathSplits(p *ssa.BasicBlock, depth int) ([]string, []string) {
	if _, isHead := fr.heads[p.Index]; isHead || len(p.Preds) < 2 || depth >= 3 || fr.in[p.Index] == nil {
		return nil, nil
	}
	var conds, tags []string
	for qi, q := range p.Preds {
		qs := fr.out[q.Index]
		if qs == nil || fr.backEdge[[2]int{q.Index, p.Index}] {
			continue
		}
		sel := "(and " + qs.cur + " " + fr.edge[[2]int{q.Index, p.Index}] + ")"
		sub, subTags := fr.pathSplits(q, depth+1)
		if len(sub) == 0 {
			conds = append(conds, sel)
			tags = append(tags, fmt.Sprintf(".via%d", qi))
			continue
		}
		for i := range sub {
			conds = append(conds, "(and "+sel+" "+sub[i]+")")
			tags = append(tags, fmt.Sprintf(".via%d%s", qi, subTags[i]))
		}
	}
	if len(conds) > 24 {
		return nil, nil
	}
	return conds, tags
}

// edgeTag names a loop edge by the ordinal of the predecessor among the header's predecessors
// (stable under block renumbering elsewhere in the function).
func edgeTag(fr *frame, p, b *ssa.BasicBlock) string {
	for i, q := range b.Preds {
		if q == p {
			return fmt.Sprint(i)
		}
	}
	return "?"
}

// srcAnchor gives a source-text anchor for an instruction.
func (fr *frame) srcAnchor(pos token.Pos, want func(ast.Node) bool, fallback string) string {
	if s := fr.g.P.ExprAt(fr.fn, pos, want); s != "" {
		return s
	}
	return fallback
}

// MakeOblList turns pendings into obligations with queries.
func (g *Gen) finish(prelude string) []*core.Obl {
	var out []*core.Obl
	decls := strings.Join(g.decls, "\n") + "\n"
	for _, p := range g.obls {
		body := strings.Join(g.asserts, "\n") + "\n"
		if p.nasserts > 0 && p.nasserts < len(g.asserts) {
			body = strings.Join(g.asserts[:p.nasserts], "\n") + "\n"
		}
		// only the ghost definitions this query mentions (transitively)
		ctx := prelude + g.Eng.GhostFor(body+p.cond) + decls + body
		o := &core.Obl{Name: p.name, Func: g.key, Kind: p.kind, Tier: core.Proved, Canary: p.canary, Detail: p.detail, Pos: p.pos}
		if p.decided != "" {
			o.Solver = "modset-inference"
			if p.decided == "ok" {
				o.Status = core.Discharged
			} else {
				o.Status = core.Refuted
				o.Output = p.detail
			}
		} else if p.canary {
			o.Query = ctx + "(assert " + p.cond + ")\n"
		} else {
			o.Query = ctx + "(assert (not " + p.cond + "))\n"
		}
		out = append(out, o)
	}
	g.annotateReplay(out)
	return out
}
