package vc

import (
	"fmt"
	"go/ast"
	"go/token"
	"go/types"
	"strings"

	"golang.org/x/tools/go/ssa"
)

// classifyAllocs decides which Allocs are activation-local cells: their address
// only flows into loads, stores (as address), field/index addressing, debug
// refs and closure bindings whose free variable is used the same way.
func (fr *frame) classifyAllocs() {
	for _, b := range fr.fn.Blocks {
		for _, ins := range b.Instrs {
			if a, ok := ins.(*ssa.Alloc); ok {
				fr.locals[a] = addrIsLocal(a, 0)
			}
		}
	}
}

func addrIsLocal(v ssa.Value, depth int) bool {
	if depth > 8 {
		return false
	}
	refs := v.Referrers()
	if refs == nil {
		return false
	}
	for _, r := range *refs {
		switch x := r.(type) {
		case *ssa.UnOp:
			if x.Op != token.MUL {
				return false
			}
		case *ssa.Store:
			if x.Val == v {
				return false
			}
		case *ssa.DebugRef:
		case *ssa.FieldAddr:
			if !addrIsLocal(x, depth+1) {
				return false
			}
		case *ssa.IndexAddr:
			if x.X != v || !addrIsLocal(x, depth+1) {
				return false
			}
		case *ssa.MakeClosure:
			fn := x.Fn.(*ssa.Function)
			for i, bnd := range x.Bindings {
				if bnd == v {
					if i >= len(fn.FreeVars) || !addrIsLocal(fn.FreeVars[i], depth+1) {
						return false
					}
				}
			}
		default:
			return false
		}
	}
	return true
}

// singleStoreClosure: the cell alloc has exactly one Store and it stores a MakeClosure.
func singleStoreOf(a ssa.Value) (ssa.Value, bool) {
	var found ssa.Value
	n := 0
	var walk func(v ssa.Value, depth int) bool
	walk = func(v ssa.Value, depth int) bool {
		if depth > 8 || v.Referrers() == nil {
			return false
		}
		for _, r := range *v.Referrers() {
			switch x := r.(type) {
			case *ssa.Store:
				if x.Addr == v {
					n++
					found = x.Val
				}
			case *ssa.MakeClosure:
				fn := x.Fn.(*ssa.Function)
				for i, bnd := range x.Bindings {
					if bnd == v && i < len(fn.FreeVars) {
						walk(fn.FreeVars[i], depth+1)
					}
				}
			}
		}
		return true
	}
	walk(a, 0)
	return found, n == 1
}

func (fr *frame) localBase(a *ssa.Alloc) string {
	return "L_" + fr.prefix + sanitizeSym(a.Name()) + "_" + sanitizeSym(a.Comment)
}

// instr translates one instruction; it returns true when the block ends abnormally.
func (fr *frame) instr(b *ssa.BasicBlock, ins ssa.Instruction, st *state) bool {
	g := fr.g
	switch x := ins.(type) {
	case *ssa.DebugRef:
		return false
	case *ssa.Phi:
		if _, isHead := fr.heads[b.Index]; isHead {
			return false // havocked in enterLoop
		}
		fr.phi(b, x, st)
	case *ssa.Alloc:
		el := x.Type().(*types.Pointer).Elem()
		if fr.locals[x] {
			l := &Loc{base: fr.localBase(x), typ: el, local: true}
			g.zeroObject(st, l.base, nil, el, true)
			fr.env[x] = &Term{S: "0", T: x.Type(), Loc: l}
		} else {
			a := g.allocAddr(st)
			t := &Term{S: a, T: x.Type()}
			l := g.locOfPointer(t)
			g.zeroObject(st, l.base, l.idx, el, false)
			if el.String() == "strings.Builder" {
				// ghost content of a fresh builder: the empty string
				old := g.base(st, "SB.content", "Int", 1, false)
				nv := g.newVersion(st, "SB.content")
				g.assert("(= " + nv + " (store " + old + " " + a + " " + g.U.StrLit("") + "))")
			}
			fr.env[x] = &Term{S: a, T: x.Type()}
		}
	case *ssa.FieldAddr:
		p := fr.val(x.X)
		stT := x.X.Type().Underlying().(*types.Pointer).Elem()
		sty := stT.Underlying().(*types.Struct)
		if p.Loc == nil {
			g.safety(fr, st, "nil-deref", fr.srcAnchor(x.Pos(), isSelector, sty.Field(x.Field).Name()), x.Pos(), "(not (= "+p.S+" 0))")
		}
		l := g.locOfPointer(p)
		f := sty.Field(x.Field)
		fr.env[x] = &Term{S: "0", T: x.Type(), Loc: &Loc{base: l.base + "." + sanitizeField(f.Name(), x.Field), idx: l.idx, typ: f.Type(), local: l.local}}
	case *ssa.Field:
		v := fr.val(x.X)
		d := g.U.structInfo(x.X.Type())
		fr.env[x] = &Term{S: "(" + d.fnames[x.Field] + " " + v.S + ")", T: x.Type()}
	case *ssa.IndexAddr:
		fr.indexAddr(x, st)
	case *ssa.Index:
		v := fr.val(x.X)
		i := fr.val(x.Index)
		if bt, ok := x.X.Type().Underlying().(*types.Basic); ok && bt.Info()&types.IsString != 0 {
			g.safety(fr, st, "index", fr.srcAnchor(x.Pos(), isIndex, "string-index"), x.Pos(), "(and (<= 0 "+i.S+") (< "+i.S+" (strlen "+v.S+")))")
			fr.env[x] = &Term{S: "(strat " + v.S + " " + i.S + ")", T: x.Type()}
			g.assert("(and (<= 0 (strat " + v.S + " " + i.S + ")) (<= (strat " + v.S + " " + i.S + ") 255))")
		} else if at, ok := x.X.Type().Underlying().(*types.Array); ok && g.U.sortOf(x.X.Type()) != "" {
			if _, isConst := x.Index.(*ssa.Const); !isConst {
				g.safety(fr, st, "index", fr.srcAnchor(x.Pos(), isIndex, "array-index"), x.Pos(), fmt.Sprintf("(and (<= 0 %s) (< %s %d))", i.S, i.S, at.Len()))
			}
			n := g.fresh(fr.name(x), g.leafSort(at.Elem()))
			g.assert("(= " + n + " (select " + v.S + " " + i.S + "))")
			g.assumeType(at.Elem(), n, st, false)
			fr.env[x] = &Term{S: n, T: x.Type()}
		} else {
			g.rejectf("Index on %s", x.X.Type())
			fr.env[x] = &Term{S: "0", T: x.Type()}
		}
	case *ssa.UnOp:
		fr.unop(x, st)
	case *ssa.Store:
		p := fr.val(x.Addr)
		v := fr.val(x.Val)
		if p.Loc == nil {
			g.safety(fr, st, "nil-deref", fr.srcAnchor(x.Pos(), nil, "store"), x.Pos(), "(not (= "+p.S+" 0))")
		}
		l := g.locOfPointer(p)
		if inv := fr.fieldInv(l, v.S); inv != "" {
			g.addObl(fr, st, "fieldinv", l.base+":"+fr.srcAnchor(x.Pos(), nil, "store"), "data-structure invariant of "+l.base+" holds for the stored value", x.Pos(), inv)
		}
		fr.storeSiteObligations(x, l, v, st)
		g.store(st, l, v)
		if v.Clo != nil && l.local && len(l.idx) == 0 {
			if a, ok := x.Addr.(*ssa.Alloc); ok {
				if _, single := singleStoreOf(a); single {
					g.cellClo[l.base] = v.Clo
				}
			}
		}
	case *ssa.BinOp:
		fr.binop(x, st)
	case *ssa.Convert:
		fr.convert(x, st)
	case *ssa.ChangeType:
		v := fr.val(x.X)
		fr.env[x] = &Term{S: v.S, T: x.Type(), Clo: v.Clo, Loc: v.Loc}
	case *ssa.ChangeInterface:
		v := fr.val(x.X)
		fs, ts := g.U.sortOf(x.X.Type()), g.U.sortOf(x.Type())
		switch {
		case fs == ts:
			fr.env[x] = &Term{S: v.S, T: x.Type()}
		case fs == "Err" && ts == "Val":
			fr.env[x] = &Term{S: "(ite (= " + v.S + " ENil) VNil (VOther 1 (eid " + v.S + ")))", T: x.Type()}
		default:
			g.rejectf("ChangeInterface %s -> %s", x.X.Type(), x.Type())
			fr.env[x] = &Term{S: g.zero(x.Type()), T: x.Type()}
		}
	case *ssa.MakeInterface:
		fr.makeInterface(x, st)
	case *ssa.TypeAssert:
		fr.typeAssert(x, st)
	case *ssa.Extract:
		t := fr.val(x.Tuple)
		if x.Index < len(t.Tuple) {
			fr.env[x] = t.Tuple[x.Index]
		} else {
			g.rejectf("extract from non-tuple %s", x.Tuple.Name())
			fr.env[x] = &Term{S: "0", T: x.Type()}
		}
	case *ssa.Slice:
		fr.sliceOp(x, st)
	case *ssa.MakeSlice:
		ln, cp := fr.val(x.Len), fr.val(x.Cap)
		g.safety(fr, st, "makeslice", fr.srcAnchor(x.Pos(), isCall, "make"), x.Pos(),
			"(and (<= 0 "+ln.S+") (<= "+ln.S+" "+cp.S+") (<= "+cp.S+" 1152921504606846975))")
		a := g.allocAddr(st)
		el := x.Type().Underlying().(*types.Slice).Elem()
		for _, lf := range g.leaves("E_"+typeKey(el), el) {
			old := g.base(st, lf.name, g.leafSort(lf.typ), 2, false)
			nv := g.newVersion(st, lf.name)
			g.assert("(= " + nv + " (store " + old + " " + a + " ((as const (Array Int " + g.leafSort(lf.typ) + ")) " + g.zero(lf.typ) + ")))")
		}
		fr.env[x] = &Term{S: "(mk_slice " + a + " 0 " + ln.S + " " + cp.S + ")", T: x.Type()}
	case *ssa.MakeMap:
		fr.makeMap(x, st)
	case *ssa.MapUpdate:
		fr.mapUpdate(x, st)
	case *ssa.Lookup:
		fr.lookup(x, st)
	case *ssa.Range:
		fr.rangeInstr(x, st)
	case *ssa.Next:
		fr.nextInstr(x, st)
	case *ssa.MakeClosure:
		fn := x.Fn.(*ssa.Function)
		c := &Closure{Fn: fn}
		for _, bnd := range x.Bindings {
			c.Bindings = append(c.Bindings, fr.val(bnd))
		}
		id := g.fresh(fr.prefix+"clo_"+fn.Name(), "Int")
		g.assert("(and (> " + id + " 0) (< " + id + " " + g.base(st, "next", "Int", 0, false) + "))")
		// the code a closure value runs (ghost function cloFn; a bound-method value runs the method)
		g.assert("(= (cloFn " + id + ") " + g.U.funcID(closureTarget(fn)) + ")")
		fr.env[x] = &Term{S: id, T: x.Type(), Clo: c}
	case *ssa.Call:
		fr.call(x, st)
	case *ssa.If:
		c := fr.val(x.Cond)
		fr.edge[[2]int{b.Index, b.Succs[0].Index}] = c.S
		fr.edge[[2]int{b.Index, b.Succs[1].Index}] = "(not " + c.S + ")"
	case *ssa.Jump:
		fr.edge[[2]int{b.Index, b.Succs[0].Index}] = "true"
	case *ssa.Return:
		var vals []*Term
		for _, r := range x.Results {
			vals = append(vals, fr.val(r))
		}
		fr.rets = append(fr.rets, retSite{cond: st.cur, vals: vals, st: st.clone(), block: b, pos: x.Pos(), hz: len(g.asserts)})
	case *ssa.Panic:
		g.addObl(fr, st, "safety", "panic:"+fr.srcAnchor(x.Pos(), isCall, "panic"), "explicit panic is unreachable", x.Pos(), "false")
	case *ssa.Send:
		fr.send(x, st)
	case *ssa.RunDefers:
		// no defers in the subset (a Defer instruction is rejected)
	default:
		g.rejectf("unsupported instruction %T in %s", ins, fr.key)
	}
	return false
}

func isSelector(n ast.Node) bool { _, ok := n.(*ast.SelectorExpr); return ok }
func isIndex(n ast.Node) bool    { _, ok := n.(*ast.IndexExpr); return ok }
func isCall(n ast.Node) bool     { _, ok := n.(*ast.CallExpr); return ok }
func isSliceExpr(n ast.Node) bool {
	_, ok := n.(*ast.SliceExpr)
	return ok
}
func isBinary(n ast.Node) bool { _, ok := n.(*ast.BinaryExpr); return ok }
func isAssert(n ast.Node) bool { _, ok := n.(*ast.TypeAssertExpr); return ok }

func (fr *frame) phi(b *ssa.BasicBlock, x *ssa.Phi, st *state) {
	g := fr.g
	var conds []string
	var vals []*Term
	for i, p := range b.Preds {
		ps, ok := fr.out[p.Index]
		if !ok || fr.backEdge[[2]int{p.Index, b.Index}] {
			continue
		}
		conds = append(conds, "(and "+ps.cur+" "+fr.edge[[2]int{p.Index, b.Index}]+")")
		vals = append(vals, fr.val(x.Edges[i]))
	}
	if len(vals) == 0 {
		fr.env[x] = &Term{S: g.zero(x.Type()), T: x.Type()}
		return
	}
	same := true
	for _, v := range vals {
		if v.S != vals[0].S || v.Loc != vals[0].Loc {
			same = false
		}
	}
	if same {
		fr.env[x] = vals[0]
		return
	}
	for _, v := range vals {
		if v.Loc != nil || len(v.Tuple) > 0 {
			g.rejectf("phi of locations/tuples (%s) in %s", x.Name(), fr.key)
			fr.env[x] = vals[0]
			return
		}
	}
	s := g.U.sortOf(x.Type())
	if s == "" {
		g.rejectf("phi of unrepresentable type %s", x.Type())
		s = "Int"
	}
	n := g.fresh(fr.name(x)+"_"+sanitizeSym(x.Comment), s)
	t := vals[len(vals)-1].S
	for i := len(vals) - 2; i >= 0; i-- {
		t = "(ite " + conds[i] + " " + vals[i].S + " " + t + ")"
	}
	g.assert("(= " + n + " " + t + ")")
	r := &Term{S: n, T: x.Type()}
	// keep static closure knowledge if all agree
	if vals[0].Clo != nil {
		ok := true
		for _, v := range vals {
			if v.Clo == nil || v.Clo.Fn != vals[0].Clo.Fn {
				ok = false
			}
		}
		if ok && len(vals[0].Clo.Bindings) == 0 {
			r.Clo = vals[0].Clo
		}
	}
	fr.env[x] = r
}

func (fr *frame) indexAddr(x *ssa.IndexAddr, st *state) {
	g := fr.g
	base := fr.val(x.X)
	i := fr.val(x.Index)
	anchor := fr.srcAnchor(x.Pos(), isIndex, "index")
	switch t := x.X.Type().Underlying().(type) {
	case *types.Slice:
		g.safety(fr, st, "index", anchor, x.Pos(), "(and (<= 0 "+i.S+") (< "+i.S+" (s_len "+base.S+")))")
		fr.env[x] = &Term{S: "0", T: x.Type(), Loc: &Loc{base: "E_" + typeKey(t.Elem()), idx: []string{"(s_arr " + base.S + ")", "(+ (s_off " + base.S + ") " + i.S + ")"}, typ: t.Elem()}}
	case *types.Pointer:
		at, ok := t.Elem().Underlying().(*types.Array)
		if !ok {
			g.rejectf("IndexAddr on %s", x.X.Type())
			fr.env[x] = &Term{S: "0", T: x.Type(), Loc: &Loc{base: "C_bad", idx: []string{"0"}, typ: types.Typ[types.Int]}}
			return
		}
		if _, isConst := x.Index.(*ssa.Const); !isConst {
			g.safety(fr, st, "index", anchor, x.Pos(), fmt.Sprintf("(and (<= 0 %s) (< %s %d))", i.S, i.S, at.Len()))
		}
		if base.Loc == nil {
			g.safety(fr, st, "nil-deref", anchor, x.Pos(), "(not (= "+base.S+" 0))")
		}
		l := g.locOfPointer(base)
		idx := append(append([]string{}, l.idx...), i.S)
		fr.env[x] = &Term{S: "0", T: x.Type(), Loc: &Loc{base: l.base, idx: idx, typ: at.Elem(), local: l.local}}
	default:
		g.rejectf("IndexAddr on %s", x.X.Type())
		fr.env[x] = &Term{S: "0", T: x.Type(), Loc: &Loc{base: "C_bad", idx: []string{"0"}, typ: types.Typ[types.Int]}}
	}
}

func (fr *frame) unop(x *ssa.UnOp, st *state) {
	g := fr.g
	v := fr.val(x.X)
	switch x.Op {
	case token.MUL:
		if v.Loc == nil {
			g.safety(fr, st, "nil-deref", fr.srcAnchor(x.Pos(), nil, "load"), x.Pos(), "(not (= "+v.S+" 0))")
		}
		l := g.locOfPointer(v)
		r := g.load(st, l)
		// name the loaded value so that later stores do not change it (passive form) and give it its type invariant
		if r.S != "" && g.U.sortOf(r.T) != "" {
			n := g.fresh(fr.name(x), g.U.sortOf(r.T))
			g.assert("(= " + n + " " + r.S + ")")
			g.assumeType(r.T, n, st, false)
			if inv := fr.fieldInv(l, n); inv != "" {
				g.assert("(=> " + st.cur + " " + inv + ")")
			}
			fr.env[x] = &Term{S: n, T: x.Type(), Clo: r.Clo}
		} else {
			fr.env[x] = r
		}
	case token.NOT:
		fr.env[x] = &Term{S: "(not " + v.S + ")", T: x.Type()}
	case token.SUB:
		if g.U.sortOf(x.Type()) == "Real" {
			fr.env[x] = &Term{S: "(- " + v.S + ")", T: x.Type()}
		} else {
			fr.env[x] = &Term{S: wrapTerm(x.Type(), "(- "+v.S+")"), T: x.Type()}
		}
	case token.XOR:
		bits, signed := intBits(x.Type())
		if signed {
			fr.env[x] = &Term{S: "(- (- " + v.S + ") 1)", T: x.Type()}
		} else {
			fr.env[x] = &Term{S: "(- " + fmt.Sprint(pow2m1(bits)) + " " + v.S + ")", T: x.Type()}
		}
	case token.ARROW:
		g.rejectf("channel receive")
		fr.env[x] = &Term{S: g.zero(x.Type()), T: x.Type()}
	default:
		g.rejectf("unary operator %s", x.Op)
		fr.env[x] = &Term{S: "0", T: x.Type()}
	}
}

func pow2m1(bits int) string {
	switch bits {
	case 8:
		return "255"
	case 16:
		return "65535"
	case 32:
		return "4294967295"
	}
	return "18446744073709551615"
}

// maskRun recognises a constant with one contiguous run of set bits: returns (lo, width).
func maskRun(c uint64) (lo, w int, ok bool) {
	if c == 0 {
		return 0, 0, false
	}
	for c&1 == 0 {
		c >>= 1
		lo++
	}
	for c&1 == 1 {
		c >>= 1
		w++
	}
	return lo, w, c == 0
}

func constUint(v ssa.Value) (uint64, bool) {
	c, ok := v.(*ssa.Const)
	if !ok || c.Value == nil {
		return 0, false
	}
	if b, ok := c.Type().Underlying().(*types.Basic); !ok || b.Info()&types.IsInteger == 0 {
		return 0, false
	}
	return c.Uint64(), c.Int64() >= 0
}

func (fr *frame) binop(x *ssa.BinOp, st *state) {
	g := fr.g
	a, b := fr.val(x.X), fr.val(x.Y)
	ot := x.X.Type()
	srt := g.U.sortOf(ot)
	set := func(s string) {
		// integer results are named: keeps ground terms E-matching friendly (no ite/mod under selects)
		if g.U.sortOf(x.Type()) == "Int" && strings.HasPrefix(s, "(") {
			n := g.fresh(fr.name(x), "Int")
			g.assert("(= " + n + " " + s + ")")
			s = n
		}
		fr.env[x] = &Term{S: s, T: x.Type()}
	}
	switch x.Op {
	case token.EQL, token.NEQ:
		var e string
		switch srt {
		case "Val":
			// interface comparison panics on equal uncomparable dynamic types
			g.safety(fr, st, "comparable", fr.srcAnchor(x.Pos(), isBinary, "=="), x.Pos(), "(comparableVals "+a.S+" "+b.S+")")
			e = "(= " + a.S + " " + b.S + ")"
		case "Slice":
			// only comparison with nil is legal
			if isNilConst(x.Y) {
				e = "(= (s_arr " + a.S + ") 0)"
			} else if isNilConst(x.X) {
				e = "(= (s_arr " + b.S + ") 0)"
			} else {
				g.rejectf("slice comparison")
				e = "true"
			}
		default:
			e = "(= " + a.S + " " + b.S + ")"
		}
		if x.Op == token.NEQ {
			e = "(not " + e + ")"
		}
		set(e)
		return
	}
	if srt == "Real" {
		ops := map[token.Token]string{token.ADD: "+", token.SUB: "-", token.MUL: "*", token.QUO: "/", token.LSS: "<", token.LEQ: "<=", token.GTR: ">", token.GEQ: ">="}
		if op, ok := ops[x.Op]; ok {
			if x.Op == token.MUL {
				_, cx := x.X.(*ssa.Const)
				_, cy := x.Y.(*ssa.Const)
				if cx || cy {
					set("(* " + a.S + " " + b.S + ")") // multiplication by a constant stays linear
					return
				}
				set("(fmul " + a.S + " " + b.S + ")")
				g.declareFun("fmul", "(Real Real) Real")
				return
			}
			if x.Op == token.QUO {
				set("(fdiv " + a.S + " " + b.S + ")")
				g.declareFun("fdiv", "(Real Real) Real")
				return
			}
			set("(" + op + " " + a.S + " " + b.S + ")")
			return
		}
		g.rejectf("float operator %s", x.Op)
		set("0.0")
		return
	}
	if bt, ok := ot.Underlying().(*types.Basic); ok && bt.Info()&types.IsString != 0 {
		switch x.Op {
		case token.ADD:
			set("(strcat " + a.S + " " + b.S + ")")
		case token.LSS:
			set("(strlt " + a.S + " " + b.S + ")")
		case token.GTR:
			set("(strlt " + b.S + " " + a.S + ")")
		case token.LEQ:
			set("(not (strlt " + b.S + " " + a.S + "))")
		case token.GEQ:
			set("(not (strlt " + a.S + " " + b.S + "))")
		default:
			g.rejectf("string operator %s", x.Op)
			set("0")
		}
		return
	}
	if srt == "Bool" {
		switch x.Op {
		case token.AND, token.LAND:
			set("(and " + a.S + " " + b.S + ")")
		case token.OR, token.LOR:
			set("(or " + a.S + " " + b.S + ")")
		default:
			g.rejectf("bool operator %s", x.Op)
			set("false")
		}
		return
	}
	// integers
	switch x.Op {
	case token.ADD:
		set(wrapTerm(x.Type(), "(+ "+a.S+" "+b.S+")"))
	case token.SUB:
		set(wrapTerm(x.Type(), "(- "+a.S+" "+b.S+")"))
	case token.MUL:
		if _, ok := x.X.(*ssa.Const); ok {
			set(wrapTerm(x.Type(), "(* "+a.S+" "+b.S+")"))
		} else if _, ok := x.Y.(*ssa.Const); ok {
			set(wrapTerm(x.Type(), "(* "+a.S+" "+b.S+")"))
		} else {
			set(wrapTerm(x.Type(), "(mul64 "+a.S+" "+b.S+")"))
		}
	case token.QUO, token.REM:
		g.safety(fr, st, "div-by-zero", fr.srcAnchor(x.Pos(), nil, x.Op.String()), x.Pos(), "(not (= "+b.S+" 0))")
		f := "div64"
		if x.Op == token.REM {
			f = "rem64"
		}
		if c, ok := x.Y.(*ssa.Const); ok && c.Value != nil {
			// constant divisor: reveal the definition (linear)
			if x.Op == token.QUO {
				set(wrapTerm(x.Type(), "(tdiv "+a.S+" "+b.S+")"))
			} else {
				set(wrapTerm(x.Type(), "(trem "+a.S+" "+b.S+")"))
			}
		} else {
			set(wrapTerm(x.Type(), "("+f+" "+a.S+" "+b.S+")"))
		}
	case token.LSS:
		set("(< " + a.S + " " + b.S + ")")
	case token.LEQ:
		set("(<= " + a.S + " " + b.S + ")")
	case token.GTR:
		set("(> " + a.S + " " + b.S + ")")
	case token.GEQ:
		set("(>= " + a.S + " " + b.S + ")")
	case token.AND:
		if c, ok := constUint(x.Y); ok {
			set(andConst(a.S, c))
		} else if c, ok := constUint(x.X); ok {
			set(andConst(b.S, c))
		} else if bits, _ := intBits(x.Type()); bits == 8 {
			set("(band8 " + a.S + " " + b.S + ")")
		} else {
			g.rejectf("bitwise & of two variables of %s", x.Type())
			set("0")
		}
	case token.OR:
		bits, signed := intBits(x.Type())
		if c, ok := constUint(x.Y); ok && !signed {
			// x | c = x + c - (x & c): linear over mod/div by constants
			set("(- (+ " + a.S + " " + fmt.Sprint(c) + ") " + andConst(a.S, c) + ")")
		} else if c, ok := constUint(x.X); ok && !signed {
			set("(- (+ " + b.S + " " + fmt.Sprint(c) + ") " + andConst(b.S, c) + ")")
		} else if mask, inner, ok := maskedOperand(x.Y); ok && !signed && popcount(mask) <= 4 {
			// x | (y & MASK) with a few mask bits: add each mask bit that y has and x lacks
			set(orMasked(a.S, fr.val(inner).S, mask))
		} else if mask, inner, ok := maskedOperand(x.X); ok && !signed && popcount(mask) <= 4 {
			set(orMasked(b.S, fr.val(inner).S, mask))
		} else if bits == 8 && !signed {
			set("(bor8 " + a.S + " " + b.S + ")")
		} else {
			g.rejectf("bitwise | on %s", x.Type())
			set("0")
		}
	case token.XOR:
		bits, signed := intBits(x.Type())
		if bits == 8 && !signed {
			set("(bxor8 " + a.S + " " + b.S + ")")
		} else {
			g.rejectf("bitwise ^ on %s", x.Type())
			set("0")
		}
	case token.SHL:
		if c, ok := constUint(x.Y); ok && c < 63 {
			set(wrapTerm(x.Type(), "(* "+a.S+" "+fmt.Sprint(uint64(1)<<c)+")"))
		} else {
			g.rejectf("shift by variable")
			set("0")
		}
	case token.SHR:
		if c, ok := constUint(x.Y); ok && c < 63 {
			set("(div " + a.S + " " + fmt.Sprint(uint64(1)<<c) + ")")
		} else {
			g.rejectf("shift by variable")
			set("0")
		}
	default:
		g.rejectf("integer operator %s", x.Op)
		set("0")
	}
}

// maskedOperand: v is `y & MASK` (constant mask on either side).
func maskedOperand(v ssa.Value) (uint64, ssa.Value, bool) {
	bo, ok := v.(*ssa.BinOp)
	if !ok || bo.Op != token.AND {
		return 0, nil, false
	}
	if c, ok := constUint(bo.Y); ok {
		return c, bo.X, true
	}
	if c, ok := constUint(bo.X); ok {
		return c, bo.Y, true
	}
	return 0, nil, false
}

func popcount(c uint64) int {
	n := 0
	for ; c != 0; c &= c - 1 {
		n++
	}
	return n
}

func bitTerm(x string, k uint) string {
	if k == 0 {
		return "(>= (mod " + x + " 2) 1)"
	}
	return "(>= (mod (div " + x + " " + fmt.Sprint(uint64(1)<<k) + ") 2) 1)"
}

// orMasked encodes a | (b & mask) for non-negative a, b.
func orMasked(a, b string, mask uint64) string {
	parts := []string{a}
	for k := uint(0); k < 64; k++ {
		if mask&(1<<k) != 0 {
			parts = append(parts, "(ite (and "+bitTerm(b, k)+" (not "+bitTerm(a, k)+")) "+fmt.Sprint(uint64(1)<<k)+" 0)")
		}
	}
	return "(+ " + strings.Join(parts, " ") + ")"
}

// andConst encodes x & c for a non-negative x and constant c as arithmetic over bit runs.
func andConst(x string, c uint64) string {
	if c == 0 {
		return "0"
	}
	var parts []string
	rest := c
	shift := 0
	for rest != 0 {
		for rest&1 == 0 {
			rest >>= 1
			shift++
		}
		w := 0
		for rest&1 == 1 {
			rest >>= 1
			w++
		}
		lo := shift
		shift += w
		t := x
		if lo > 0 {
			t = "(div " + t + " " + fmt.Sprint(uint64(1)<<uint(lo)) + ")"
		}
		t = "(mod " + t + " " + fmt.Sprint(uint64(1)<<uint(w)) + ")"
		if lo > 0 {
			t = "(* " + fmt.Sprint(uint64(1)<<uint(lo)) + " " + t + ")"
		}
		parts = append(parts, t)
	}
	if len(parts) == 1 {
		return parts[0]
	}
	return "(+ " + strings.Join(parts, " ") + ")"
}

func isNilConst(v ssa.Value) bool {
	c, ok := v.(*ssa.Const)
	return ok && c.Value == nil
}

func (fr *frame) convert(x *ssa.Convert, st *state) {
	g := fr.g
	v := fr.val(x.X)
	from, to := x.X.Type(), x.Type()
	fs, ts := g.U.sortOf(from), g.U.sortOf(to)
	fb, _ := from.Underlying().(*types.Basic)
	tb, _ := to.Underlying().(*types.Basic)
	switch {
	case fb != nil && tb != nil && fb.Info()&types.IsInteger != 0 && tb.Info()&types.IsInteger != 0:
		// value-preserving when the target range includes the source range
		flo, fhi, _ := intRange(from)
		tlo, thi, _ := intRange(to)
		if rangeIncl(tlo, thi, flo, fhi) {
			fr.env[x] = &Term{S: v.S, T: to}
		} else {
			fr.env[x] = &Term{S: wrapTerm(to, v.S), T: to}
			if g.con != nil || true {
				fr.noteNarrowing(x, v, st)
			}
		}
	case fb != nil && tb != nil && fb.Info()&types.IsInteger != 0 && tb.Info()&types.IsFloat != 0:
		fr.env[x] = &Term{S: "(to_real " + v.S + ")", T: to}
	case fb != nil && tb != nil && fb.Info()&types.IsFloat != 0 && tb.Info()&types.IsFloat != 0:
		fr.env[x] = &Term{S: v.S, T: to}
	case fb != nil && tb != nil && fb.Info()&types.IsString != 0 && tb.Info()&types.IsString != 0:
		fr.env[x] = &Term{S: v.S, T: to}
	case fb != nil && fb.Info()&types.IsString != 0 && ts == "Slice":
		// []rune(s) / []byte(s): fresh array whose content is a function of the string
		el := to.Underlying().(*types.Slice).Elem()
		a := g.allocAddr(st)
		fname := "runesOf"
		lname := "runeLen"
		if eb, ok := el.Underlying().(*types.Basic); ok && eb.Kind() == types.Uint8 {
			fname, lname = "bytesOf", "strlen"
		}
		g.declareFun("runesOf", "(Int) (Array Int Int)")
		g.declareFun("bytesOf", "(Int) (Array Int Int)")
		g.declareFun("runeLen", "(Int) Int")
		base := "E_" + typeKey(el)
		old := g.base(st, base, "Int", 2, false)
		nv := g.newVersion(st, base)
		g.assert("(= " + nv + " (store " + old + " " + a + " (" + fname + " " + v.S + ")))")
		g.assert("(and (>= (" + lname + " " + v.S + ") 0) (<= (" + lname + " " + v.S + ") (strlen " + v.S + ")))")
		fr.env[x] = &Term{S: "(mk_slice " + a + " 0 (" + lname + " " + v.S + ") (" + lname + " " + v.S + "))", T: to}
	case fs == "Slice" && tb != nil && tb.Info()&types.IsString != 0:
		// string(runes)
		el := from.Underlying().(*types.Slice).Elem()
		g.declareFun("strOfArr", "((Array Int Int) Int Int) Int")
		base := g.base(st, "E_"+typeKey(el), "Int", 2, false)
		fr.env[x] = &Term{S: "(strOfArr (select " + base + " (s_arr " + v.S + ")) (s_off " + v.S + ") (s_len " + v.S + "))", T: to}
	case fb != nil && fb.Info()&types.IsInteger != 0 && tb != nil && tb.Info()&types.IsString != 0:
		g.declareFun("strOfRune", "(Int) Int")
		fr.env[x] = &Term{S: "(strOfRune " + v.S + ")", T: to}
	case fs == ts && fs != "":
		fr.env[x] = &Term{S: v.S, T: to}
	default:
		g.rejectf("conversion %s -> %s", from, to)
		fr.env[x] = &Term{S: g.zero(to), T: to}
	}
}

func rangeIncl(tlo, thi, flo, fhi string) bool {
	return cmpNum(tlo, flo) <= 0 && cmpNum(thi, fhi) >= 0
}

func cmpNum(a, b string) int {
	pa, na := parseNum(a)
	pb, nb := parseNum(b)
	if na != nb {
		if na {
			return -1
		}
		return 1
	}
	c := 0
	if len(pa) != len(pb) {
		if len(pa) < len(pb) {
			c = -1
		} else {
			c = 1
		}
	} else {
		c = strings.Compare(pa, pb)
	}
	if na {
		return -c
	}
	return c
}

func parseNum(s string) (digits string, neg bool) {
	s = strings.TrimSpace(s)
	if strings.HasPrefix(s, "(- ") {
		return strings.TrimSuffix(strings.TrimPrefix(s, "(- "), ")"), true
	}
	return s, false
}

// noteNarrowing emits a (separately named, normally unclaimed) "nooverflow" obligation for a
// narrowing integer conversion: the value must be preserved.
func (fr *frame) noteNarrowing(x *ssa.Convert, v *Term, st *state) {
	g := fr.g
	lo, hi, _ := intRange(x.Type())
	anchor := fr.srcAnchor(x.Pos(), isCall, "convert")
	g.addObl(fr, st, "nooverflow", anchor, "narrowing conversion preserves the value", x.Pos(), "(and (<= "+lo+" "+v.S+") (<= "+v.S+" "+hi+"))")
}

func (fr *frame) makeInterface(x *ssa.MakeInterface, st *state) {
	g := fr.g
	v := fr.val(x.X)
	if isErrorType(x.Type()) {
		// a concrete error value: fresh non-nil error identity
		id := g.fresh("errid", "Int")
		fr.env[x] = &Term{S: "(EErr " + id + ")", T: x.Type()}
		return
	}

	if isInterface(x.X.Type()) {
		fr.env[x] = &Term{S: v.S, T: x.Type()}
		return
	}
	c := g.U.valCtorFor(x.X.Type())
	if c.opaque {
		// opaque payload: identity is a function of the representable parts (none): fresh id
		id := g.fresh("opq", "Int")
		fr.env[x] = &Term{S: "(V_" + c.key + " " + id + ")", T: x.Type()}
		return
	}
	fr.env[x] = &Term{S: "(V_" + c.key + " " + v.S + ")", T: x.Type()}
}

func (fr *frame) typeAssert(x *ssa.TypeAssert, st *state) {
	g := fr.g
	v := fr.val(x.X)
	at := x.AssertedType
	var is, payload string
	if isInterface(at) {
		if g.U.sortOf(at) == "Val" && g.U.sortOf(x.X.Type()) == "Val" {
			is, payload = "(not (= "+v.S+" VNil))", v.S
		} else {
			g.rejectf("type assertion to interface %s", at)
			is, payload = "true", g.zero(at)
		}
	} else if g.U.sortOf(x.X.Type()) != "Val" {
		g.rejectf("type assertion on %s", x.X.Type())
		is, payload = "true", g.zero(at)
	} else {
		c := g.U.valCtorFor(at)
		is = "((_ is V_" + c.key + ") " + v.S + ")"
		if c.opaque {
			payload = g.zero(at)
			if g.U.sortOf(at) == "Int" {
				payload = "(p_" + c.key + " " + v.S + ")"
			}
		} else {
			payload = "(p_" + c.key + " " + v.S + ")"
		}
	}
	if x.CommaOk {
		// the value component is the zero value when the assertion fails
		val := "(ite " + is + " " + payload + " " + g.zero(at) + ")"
		if srt := g.U.sortOf(at); srt != "" {
			n := g.fresh(fr.name(x)+"_v", srt)
			g.assert("(= " + n + " " + val + ")")
			val = n
		}
		fr.env[x] = &Term{T: x.Type(), Tuple: []*Term{{S: val, T: at}, {S: is, T: types.Typ[types.Bool]}}}
		return
	}
	g.safety(fr, st, "type-assert", fr.srcAnchor(x.Pos(), isAssert, "assert"), x.Pos(), is)
	fr.env[x] = &Term{S: payload, T: at}
}

func (fr *frame) sliceOp(x *ssa.Slice, st *state) {
	g := fr.g
	v := fr.val(x.X)
	anchor := fr.srcAnchor(x.Pos(), isSliceExpr, "slice")
	low := "0"
	if x.Low != nil {
		low = fr.val(x.Low).S
	}
	switch t := x.X.Type().Underlying().(type) {
	case *types.Slice:
		high := "(s_len " + v.S + ")"
		if x.High != nil {
			high = fr.val(x.High).S
		}
		mx := "(s_cap " + v.S + ")"
		capEnd := mx
		if x.Max != nil {
			capEnd = fr.val(x.Max).S
		}
		g.safety(fr, st, "slice-bounds", anchor, x.Pos(), "(and (<= 0 "+low+") (<= "+low+" "+high+") (<= "+high+" "+capEnd+") (<= "+capEnd+" "+mx+"))")
		fr.env[x] = &Term{S: "(mk_slice (s_arr " + v.S + ") (+ (s_off " + v.S + ") " + low + ") (- " + high + " " + low + ") (- " + capEnd + " " + low + "))", T: x.Type()}
	case *types.Basic: // string
		high := "(strlen " + v.S + ")"
		if x.High != nil {
			high = fr.val(x.High).S
		}
		g.safety(fr, st, "slice-bounds", anchor, x.Pos(), "(and (<= 0 "+low+") (<= "+low+" "+high+") (<= "+high+" (strlen "+v.S+")))")
		r := "(strsub " + v.S + " " + low + " " + high + ")"
		g.assert("(= (strlen " + r + ") (- " + high + " " + low + "))")
		fr.env[x] = &Term{S: r, T: x.Type()}
	case *types.Pointer: // pointer to array
		at := t.Elem().Underlying().(*types.Array)
		n := fmt.Sprint(at.Len())
		high := n
		if x.High != nil {
			high = fr.val(x.High).S
		}
		if v.Loc != nil && v.Loc.local {
			g.rejectf("slicing an activation-local array (escape analysis inconsistency)")
		}
		g.safety(fr, st, "slice-bounds", anchor, x.Pos(), "(and (<= 0 "+low+") (<= "+low+" "+high+") (<= "+high+" "+n+"))")
		fr.env[x] = &Term{S: "(mk_slice " + v.S + " " + low + " (- " + high + " " + low + ") (- " + n + " " + low + "))", T: x.Type()}
	default:
		g.rejectf("slice of %s", x.X.Type())
		fr.env[x] = &Term{S: "nilslice", T: x.Type()}
	}
}

func (fr *frame) send(x *ssa.Send, st *state) {
	g := fr.g
	ch := fr.val(x.Chan)
	v := fr.val(x.X)
	// ghost log of sent values per run: sent_n (count) and sent_ch / sent_val arrays
	vs := g.U.sortOf(x.X.Type())
	if vs == "" {
		g.rejectf("send of %s", x.X.Type())
		return
	}
	cnt := g.base(st, "sent.n", "Int", 0, false)
	chans := g.base(st, "sent.ch", "Int", 1, false)
	vals := g.base(st, "sent.val_"+sanitizeSym(vs), vs, 1, false)
	n1 := g.newVersion(st, "sent.n")
	g.assert("(= " + n1 + " (+ " + cnt + " 1))")
	c1 := g.newVersion(st, "sent.ch")
	g.assert("(= " + c1 + " (store " + chans + " " + cnt + " " + ch.S + "))")
	v1 := g.newVersion(st, "sent.val_"+sanitizeSym(vs))
	g.assert("(= " + v1 + " (store " + vals + " " + cnt + " " + v.S + "))")
}

// fieldInv instantiates the declared data-structure invariant of a struct field (if any) for value v.
func (fr *frame) fieldInv(l *Loc, v string) string {
	g := fr.g
	if !strings.HasPrefix(l.base, "F_") {
		return ""
	}
	sx, ok := g.Spec.FieldInvs[strings.TrimPrefix(l.base, "F_")]
	if !ok {
		return ""
	}
	sc := &specCtx{fr: fr, st: &state{cur: "true", heap: map[string]string{}}, old: fr.entryState(), names: map[string]*Term{"v": {S: v, T: l.typ}}, calleeView: true}
	t := sc.tr(sx)
	if sc.err != "" {
		g.rejectf("fieldinv %s: %s", l.base, sc.err)
		return ""
	}
	return t
}

// storeSiteObligations emits the `storesite Type.field` clauses of the function under verification at a store to
// that field: $base is the object stored into, $val the stored value; evaluated in the state before the store.
// Stores in inlined callees count too (they are part of this function's behaviour).
func (fr *frame) storeSiteObligations(x *ssa.Store, l *Loc, v *Term, st *state) {
	g := fr.g
	if g.con == nil || len(g.con.StoreSites) == 0 || g.dry || !strings.HasPrefix(l.base, "F_") || len(l.idx) != 1 {
		return
	}
	field := strings.TrimPrefix(l.base, "F_")
	for _, c := range g.con.StoreSites {
		if c.Field != field {
			continue
		}
		var bt types.Type
		if fa, ok := x.Addr.(*ssa.FieldAddr); ok {
			bt = fa.X.Type()
		}
		names := map[string]*Term{"base": {S: l.idx[0], T: bt}, "val": v}
		sc := &specCtx{fr: fr, st: st, old: fr.entryState(), names: names, block: x.Block(), phiPred: -1}
		cond := sc.tr(c.Expr)
		if sc.err != "" {
			g.rejectf("storesite %s [%s]: %s", c.Field, c.Label, sc.err)
			continue
		}
		g.addObl(fr, st, "storesite", c.Field+"["+c.Label+"]:"+fr.srcAnchor(x.Pos(), nil, "store"), "store-site condition "+c.Label, x.Pos(), cond)
	}
}

// closureTarget: the function a closure value executes; for a bound-method wrapper (p.parseInt as a value) the method.
func closureTarget(fn *ssa.Function) *ssa.Function {
	if strings.HasPrefix(fn.Synthetic, "bound method wrapper") {
		for _, b := range fn.Blocks {
			for _, ins := range b.Instrs {
				if c, ok := ins.(*ssa.Call); ok {
					if t := c.Common().StaticCallee(); t != nil {
						return t
					}
				}
			}
		}
	}
	return fn
}
