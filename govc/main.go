// govc — a small contract-based deductive verifier for the Go package in /repo.
// See /verif/DESIGN.md.
package main

import (
	"fmt"
	"govc/internal/vc"
	"os"
	"sort"

	"govc/internal/core"
	"govc/internal/load"
)

func usage() {
	fmt.Fprintln(os.Stderr, `usage:
  govc funcs                      list function keys of /repo
  govc ssa <key>                  print the SSA of a function
  govc check <ID> [--tier quick|thorough]   decide a property (claims/<ID>.json)
  govc vc <key>... [--all]        run the proof tier on some functions (development)
  govc replay <ID> <replay.json>  re-decide the obligation of a replay file on the current tree
  govc names                      record variable names of the functions under contract (claims/names.json)`)
	os.Exit(2)
}

func main() {
	if len(os.Args) < 2 {
		usage()
	}
	switch os.Args[1] {
	case "funcs":
		env := core.EnvFromOS("dev")
		p, err := load.Load(env.Repo)
		if err != nil {
			fmt.Fprintln(os.Stderr, "load:", err)
			os.Exit(2)
		}
		var keys []string
		for k := range p.Funcs {
			keys = append(keys, k)
		}
		sort.Strings(keys)
		for _, k := range keys {
			fmt.Printf("%-60s %d blocks\n", k, len(p.Funcs[k].Blocks))
		}
	case "ssa":
		env := core.EnvFromOS("dev")
		p, err := load.Load(env.Repo)
		if err != nil {
			fmt.Fprintln(os.Stderr, "load:", err)
			os.Exit(2)
		}
		for _, k := range os.Args[2:] {
			fn := p.Lookup(k)
			if fn == nil {
				fmt.Fprintln(os.Stderr, "no such function:", k)
				continue
			}
			fn.WriteTo(os.Stdout)
		}
	case "names":
		// records the variable skeletons of the functions under contract (reference tree) in claims/names.json
		env := core.EnvFromOS("dev")
		p, err := load.Load(env.Repo)
		if err != nil {
			fmt.Fprintln(os.Stderr, "load:", err)
			os.Exit(2)
		}
		n, err := vc.NewEngine(env, p).WriteNames()
		if err != nil {
			fmt.Fprintln(os.Stderr, err)
			os.Exit(2)
		}
		fmt.Println("recorded", n, "functions")
	case "check":
		os.Exit(cmdCheck(os.Args[2:]))
	case "replay":
		os.Exit(cmdReplay(os.Args[2:]))
	case "vc":
		os.Exit(cmdVC(os.Args[2:]))
	default:
		usage()
	}
}
