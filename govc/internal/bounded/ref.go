package bounded

// Reference semantics of expressions (DESIGN section 3), generated per concrete
// source tree as nested ite terms: LR (left-to-right short-circuit), U / AllOK
// (order independent), K (Kleene over {value, DNE}), NoFail.  Written from the
// property statements, independently of the engine; the same definitions exist
// a second time as executable Go in harness/replay_test.go.txt (replay oracle).

import (
	"fmt"
	"strings"
)

// RefEnv says which terms variables denote.
type RefEnv struct {
	Val   func(name string) *T // value bound to name
	Err   func(name string) *T // error of Get(name) (ENil when bound)
	Avail func(name string) *T
}

// Ref generates reference terms; sub-results are named in Defs.
type Ref struct {
	Env   *RefEnv
	Defs  *Defs
	memoU map[*Src][2]*T
}

func NewRef(env *RefEnv, defs *Defs) *Ref {
	if env == nil {
		env = DefaultRefEnv()
	}
	return &Ref{Env: env, Defs: defs}
}

func DefaultRefEnv() *RefEnv {
	return &RefEnv{
		Val:   func(n string) *T { return Sym("gv_"+n, SVal) },
		Err:   func(n string) *T { return Sym("ge_"+n, SErr) },
		Avail: func(n string) *T { return Sym("av_"+n, SBool) },
	}
}

func leafTerm(l LeafVal) *T {
	switch l.Kind {
	case LBool:
		return VBool(BoolT(l.B))
	case LInt:
		return VInt(Int(l.I))
	case LStr:
		return VStr(Int(StrID(l.S)))
	case LIntList:
		return VIntList(Int(IntListID(l.IL)))
	case LStrList:
		return VStrList(Int(StrListID(l.SL)))
	}
	panic("leafTerm of a variable")
}

// applyTerms: value and error term of one operator application (no trace).
func applyTerms(op string, args []*T) (*T, *T) {
	if Alpha.IsCustom(op) {
		return CustomTerms(op, args)
	}
	if !IsBuiltinTerm(op) {
		panic(fmt.Sprintf("bounded: operator %q is not in the alphabet", op))
	}
	return OpTerm(op, args)
}

func decides(op string, v *T) *T {
	if IsAndName(op) {
		return And(Is("VBool", v), Not(BVal(v)))
	}
	return And(Is("VBool", v), BVal(v))
}

// LR: (value, error) of the documented left-to-right short-circuit evaluation.
func (rf *Ref) LR(t *Src) (*T, *T) {
	env := rf.Env
	if t.IsLeaf() {
		l := DecodeLeaf(t.Leaf, Consts)
		if l.Kind == LVar {
			return env.Val(l.S), env.Err(l.S)
		}
		return leafTerm(l), ENil
	}
	if t.Op == "if" {
		cv, ce := rf.LR(t.Kids[0])
		av, ae := rf.LR(t.Kids[1])
		bv, be := rf.LR(t.Kids[2])
		cerr := IfCondErr(cv)
		v := Ite(BVal(cv), av, bv)
		e := Ite(IsENil(ce), Ite(IsENil(cerr), Ite(BVal(cv), ae, be), cerr), ce)
		return rf.Defs.Name("lrv", v), rf.Defs.Name("lre", e)
	}
	n := len(t.Kids)
	vs := make([]*T, n)
	es := make([]*T, n)
	for i, k := range t.Kids {
		vs[i], es[i] = rf.LR(k)
	}
	ov, oe := applyTerms(t.Op, vs)
	if IsAndName(t.Op) || IsOrName(t.Op) {
		// stop at the first deciding operand; later operands are never evaluated;
		// when no operand decides the operator is applied to all values
		v, e := ov, oe
		for i := n - 1; i >= 0; i-- {
			dec := decides(t.Op, vs[i])
			v = Ite(dec, vs[i], v)
			e = Ite(IsENil(es[i]), Ite(dec, ENil, e), es[i])
		}
		return rf.Defs.Name("lrv", v), rf.Defs.Name("lre", e)
	}
	e := oe
	for i := n - 1; i >= 0; i-- {
		e = Ite(IsENil(es[i]), e, es[i])
	}
	return rf.Defs.Name("lrv", ov), rf.Defs.Name("lre", e)
}

// U: order-independent value and its definedness.
func (rf *Ref) U(t *Src) (v, def *T) {
	if r, ok := rf.memoU[t]; ok {
		return r[0], r[1]
	}
	if rf.memoU == nil {
		rf.memoU = map[*Src][2]*T{}
	}
	v, def = rf.u(t)
	rf.memoU[t] = [2]*T{v, def}
	return v, def
}

func (rf *Ref) u(t *Src) (v, def *T) {
	env := rf.Env
	if t.IsLeaf() {
		l := DecodeLeaf(t.Leaf, Consts)
		if l.Kind == LVar {
			return env.Val(l.S), IsENil(env.Err(l.S))
		}
		return leafTerm(l), True
	}
	if t.Op == "if" {
		cv, cd := rf.U(t.Kids[0])
		av, ad := rf.U(t.Kids[1])
		bv, bd := rf.U(t.Kids[2])
		return rf.Defs.Name("uv", Ite(BVal(cv), av, bv)), rf.Defs.Name("ud", And(cd, Is("VBool", cv), Ite(BVal(cv), ad, bd)))
	}
	n := len(t.Kids)
	vs := make([]*T, n)
	ds := make([]*T, n)
	for i, k := range t.Kids {
		vs[i], ds[i] = rf.U(k)
	}
	if IsAndName(t.Op) || IsOrName(t.Op) {
		var some, all []*T
		for i := range vs {
			some = append(some, And(ds[i], decides(t.Op, vs[i])))
			all = append(all, And(ds[i], Is("VBool", vs[i])))
		}
		someDec := Or(some...)
		dec := BoolT(IsOrName(t.Op))
		return rf.Defs.Name("uv", VBool(Ite(someDec, dec, Not(dec)))), rf.Defs.Name("ud", Or(someDec, And(all...)))
	}
	ov, oe := applyTerms(t.Op, vs)
	return rf.Defs.Name("uv", ov), rf.Defs.Name("ud", And(And(ds...), IsENil(oe)))
}

// AllOK: every operand that any evaluation order can reach succeeds.
func (rf *Ref) AllOK(t *Src) *T {
	env := rf.Env
	if t.IsLeaf() {
		l := DecodeLeaf(t.Leaf, Consts)
		if l.Kind == LVar {
			return IsENil(env.Err(l.S))
		}
		return True
	}
	if t.Op == "if" {
		cv, cd := rf.U(t.Kids[0])
		return rf.Defs.Name("ok", And(rf.AllOK(t.Kids[0]), cd, Is("VBool", cv), Ite(BVal(cv), rf.AllOK(t.Kids[1]), rf.AllOK(t.Kids[2]))))
	}
	var cs []*T
	for _, k := range t.Kids {
		cs = append(cs, rf.AllOK(k))
	}
	_, d := rf.U(t)
	return rf.Defs.Name("ok", And(And(cs...), d))
}

// K: Kleene value over {value, DNE}; meaningful under NoFail.
func (rf *Ref) K(t *Src) *T {
	env := rf.Env
	if t.IsLeaf() {
		l := DecodeLeaf(t.Leaf, Consts)
		if l.Kind == LVar {
			return Ite(env.Avail(l.S), env.Val(l.S), VDNE)
		}
		return leafTerm(l)
	}
	if t.Op == "if" {
		c := rf.K(t.Kids[0])
		return rf.Defs.Name("k", Ite(Is("VDNE", c), VDNE, Ite(Eq(c, VBool(True)), rf.K(t.Kids[1]), rf.K(t.Kids[2]))))
	}
	var args, dne, dec []*T
	for _, k := range t.Kids {
		a := rf.K(k)
		args = append(args, a)
		dne = append(dne, Is("VDNE", a))
		if IsAndName(t.Op) {
			dec = append(dec, Eq(a, VBool(False)))
		} else if IsOrName(t.Op) {
			dec = append(dec, Eq(a, VBool(True)))
		}
	}
	ov, _ := applyTerms(t.Op, args)
	r := Ite(Or(dne...), VDNE, ov)
	if len(dec) > 0 {
		r = Ite(Or(dec...), VBool(BoolT(IsOrName(t.Op))), r)
	}
	return rf.Defs.Name("k", r)
}

// Eager: value of t when everything is evaluated (no short circuit), and the
// condition that every variable is bound and every application succeeds.
func (rf *Ref) Eager(t *Src) (v, nofail *T) {
	env := rf.Env
	if t.IsLeaf() {
		l := DecodeLeaf(t.Leaf, Consts)
		if l.Kind == LVar {
			return env.Val(l.S), IsENil(env.Err(l.S))
		}
		return leafTerm(l), True
	}
	var vs, nf []*T
	for _, k := range t.Kids {
		v, n := rf.Eager(k)
		vs = append(vs, v)
		nf = append(nf, n)
	}
	if t.Op == "if" {
		return rf.Defs.Name("ev", Ite(BVal(vs[0]), vs[1], vs[2])), rf.Defs.Name("nf", And(And(nf...), Is("VBool", vs[0])))
	}
	ov, oe := applyTerms(t.Op, vs)
	return rf.Defs.Name("ev", ov), rf.Defs.Name("nf", And(And(nf...), IsENil(oe)))
}

// NoFail(src, v): every operator application in the tree succeeds on v.
func (rf *Ref) NoFail(t *Src) *T {
	_, n := rf.Eager(t)
	return n
}

// Vars lists the variable names of a source in first-occurrence order.
func Vars(t *Src) []string {
	var out []string
	seen := map[string]bool{}
	t.Walk(func(s *Src) {
		if s.IsLeaf() {
			l := DecodeLeaf(s.Leaf, Consts)
			if l.Kind == LVar && !seen[l.S] {
				seen[l.S] = true
				out = append(out, l.S)
			}
		}
	})
	return out
}

// UsesUndef: does the source mention an undefined-mode variable?
func UsesUndef(t *Src) bool {
	for _, v := range Vars(t) {
		if Alpha.IsUndefVar(v) {
			return true
		}
	}
	return false
}

// ---------------------------------------------------------------- reference evaluation along one path (sequences)

// DTree is a source tree annotated from the compiled program: Fast marks the
// operator nodes that FastEvaluation turned into two-leaf fast operators (the
// single permitted difference of C03: both leaf operands are fetched together
// and the operator is applied without short circuit).
type DTree struct {
	S       *Src
	Fast    bool
	Inlined bool // leaf operand of a fast operator (no loop iteration of its own)
	Idx     int  // index of the node in the flat program
	FiIdx   int  // if node: index of its fi marker
	Kids    []*DTree
}

// AppRec is one operator application of the reference (for the event log).
type AppRec struct {
	Name string
	Fast bool
	Args []*T
	V, E *T
}

// LoopRec is one LOOP event of the reference: the node about to be executed
// and the operand stack at that moment.
type LoopRec struct {
	Idx   int
	Stack []*T
}

// RefWalker evaluates LR over a tree under the decisions of one path: it
// branches on the same canonical atoms as the real code does, so that on every
// joint path both effect traces are concrete lists of call records.  It also
// keeps the reference operand stack (values of evaluated siblings awaiting
// their operator) for the LOOP events of C12.
type RefWalker struct {
	P      *Path
	Oracle *Oracle
	Trace  []TraceRec
	Apps   []AppRec
	Loops  []LoopRec
	// Visited: node indices the REAL run reported LOOP events for. Two things are
	// left to the compilation scheme and read from here rather than prescribed:
	// whether the `fi` marker after a true branch is visited, and whether an
	// and/or whose operands did not decide (all true / all false booleans) is
	// applied as an operator or its last operand is taken as the result.
	Visited map[int]bool
	stack   []*T
}

func (w *RefWalker) loop(idx int) {
	w.Loops = append(w.Loops, LoopRec{Idx: idx, Stack: append([]*T{}, w.stack...)})
}

// Eval returns the value and error terms of LR(t) on this path (v == nil: failed with e).
func (w *RefWalker) Eval(t *DTree) (v, e *T) {
	base := len(w.stack)
	v, e = w.eval(t)
	if v != nil {
		w.stack = append(w.stack[:base], v)
	}
	return v, e
}

func (w *RefWalker) eval(t *DTree) (v, e *T) {
	s := t.S
	if s.IsLeaf() {
		if !t.Inlined {
			w.loop(t.Idx)
		}
		l := DecodeLeaf(s.Leaf, Consts)
		if l.Kind != LVar {
			return leafTerm(l), ENil
		}
		key := ExpectedKey(l.S)
		gv, ge := w.Oracle.Get(key, l.S)
		w.Trace = append(w.Trace, TraceRec{Kind: "get", Name: l.S, Key: key, V: gv, E: ge})
		if !w.P.branch(IsENil(ge)) {
			return nil, ge
		}
		return gv, ENil
	}
	if s.Op == "if" {
		cv, ce := w.Eval(t.Kids[0])
		if cv == nil {
			return nil, ce
		}
		w.loop(t.Idx)
		w.stack = w.stack[:len(w.stack)-1]
		if !w.P.branch(Is("VBool", cv)) {
			return nil, IfCondErr(cv)
		}
		if w.P.branch(BVal(cv)) {
			v, e = w.Eval(t.Kids[1])
			if v != nil && w.Visited[t.FiIdx] {
				w.loop(t.FiIdx) // the fi marker after the true branch
			}
			return v, e
		}
		return w.Eval(t.Kids[2])
	}
	andor := (IsAndName(s.Op) || IsOrName(s.Op)) && !t.Fast
	if t.Fast {
		w.loop(t.Idx)
	}
	var args []*T
	for _, k := range t.Kids {
		kv, ke := w.Eval(k)
		if kv == nil {
			return nil, ke
		}
		if andor && w.P.branch(decides(s.Op, kv)) {
			return kv, ENil
		}
		args = append(args, kv)
	}
	if andor && len(args) > 0 && !w.Visited[t.Idx] && w.P.branch(Is("VBool", args[len(args)-1])) {
		// no operand decided and the last one is a boolean: it is the result; the operator is not applied
		return args[len(args)-1], ENil
	}
	if !t.Fast {
		w.loop(t.Idx)
	}
	var ov, oe *T
	if Alpha.IsCustom(s.Op) {
		ov, oe = CustomTerms(s.Op, args)
		w.Trace = append(w.Trace, TraceRec{Kind: "call", Name: s.Op, Args: args, V: ov, E: oe})
	} else {
		ov, oe = OpTerm(s.Op, args)
	}
	w.Apps = append(w.Apps, AppRec{Name: s.Op, Fast: t.Fast, Args: args, V: ov, E: oe})
	if !w.P.branch(IsENil(oe)) {
		return nil, oe
	}
	return ov, ENil
}

// ProgTree reconstructs the tree of a flat program from its parent table (the
// way Dump does, independently re-implemented) to learn which nodes are fast.
func ProgTree(p *XProg) (*DTree, error) {
	n := len(p.Nodes)
	if n == 0 || len(p.Parent) != n {
		return nil, fmt.Errorf("empty program or parent table of different length")
	}
	root := -1
	for i, pi := range p.Parent {
		if pi == -1 && p.Nodes[i].Flag&ntMask != ntEvent {
			root = i
		}
	}
	if root < 0 {
		return nil, fmt.Errorf("no root")
	}
	kids := make([][]int, n)
	for i, pi := range p.Parent {
		if pi >= 0 && int(pi) < n && p.Nodes[i].Flag&ntMask != ntEvent {
			kids[pi] = append(kids[pi], i)
		}
	}
	var rec func(i, depth int) (*DTree, error)
	rec = func(i, depth int) (*DTree, error) {
		if depth > n {
			return nil, fmt.Errorf("parent table is cyclic")
		}
		nd := p.Nodes[i]
		t := &DTree{Idx: i, Fast: nd.Flag&ntMask == ntFastOp}
		typ := nd.Flag & ntMask
		if typ == ntConstant || typ == ntVariable {
			t.S = &Src{Leaf: leafText(nd)}
			return t, nil
		}
		ks := kids[i]
		if typ == ntCond {
			if nd.Val.K != "kw" {
				return nil, fmt.Errorf("fi node %d used as a tree node", i)
			}
			if len(ks) != 4 {
				return nil, fmt.Errorf("if node %d has %d children", i, len(ks))
			}
			t.FiIdx = ks[2]
			ks = []int{ks[0], ks[1], ks[3]}
		}
		t.S = &Src{Op: nd.Val.S}
		for _, k := range ks {
			kt, err := rec(k, depth+1)
			if err != nil {
				return nil, err
			}
			kt.Inlined = t.Fast
			t.Kids = append(t.Kids, kt)
			t.S.Kids = append(t.S.Kids, kt.S)
		}
		return t, nil
	}
	return rec(root, 0)
}

func leafText(nd XNode) string {
	switch nd.Val.K {
	case "bool":
		return fmt.Sprint(nd.Val.B)
	case "int":
		return fmt.Sprint(nd.Val.I)
	case "str":
		if nd.Flag&ntMask == ntVariable {
			return nd.Val.S
		}
		return `"` + nd.Val.S + `"`
	case "ilist":
		var p []string
		for _, x := range nd.Val.IL {
			p = append(p, fmt.Sprint(x))
		}
		return "(" + strings.Join(p, " ") + ")"
	case "slist":
		var p []string
		for _, x := range nd.Val.SL {
			p = append(p, `"`+x+`"`)
		}
		return "(" + strings.Join(p, " ") + ")"
	}
	return "<" + nd.Val.K + ">"
}

// Annotate matches the tree parsed from the Dump text with the tree of the
// program table and copies the fast marks; an error means that the Dump text
// does not describe the program.
func Annotate(d *Src, pt *DTree) (*DTree, error) {
	if d.IsLeaf() != pt.S.IsLeaf() {
		return nil, fmt.Errorf("dump %s vs program %s", d, pt.S)
	}
	if d.IsLeaf() {
		// constants of the ConstantMap are printed by value
		a, b := DecodeLeaf(d.Leaf, nil), DecodeLeaf(pt.S.Leaf, nil)
		if fmt.Sprint(a) != fmt.Sprint(b) {
			return nil, fmt.Errorf("dump leaf %s vs program leaf %s", d.Leaf, pt.S.Leaf)
		}
		return &DTree{S: d, Idx: pt.Idx, Inlined: pt.Inlined}, nil
	}
	if d.Op != pt.S.Op || len(d.Kids) != len(pt.Kids) {
		return nil, fmt.Errorf("dump %s vs program %s", d, pt.S)
	}
	t := &DTree{S: d, Fast: pt.Fast, Idx: pt.Idx, FiIdx: pt.FiIdx}
	for i := range d.Kids {
		k, err := Annotate(d.Kids[i], pt.Kids[i])
		if err != nil {
			return nil, err
		}
		t.Kids = append(t.Kids, k)
	}
	return t, nil
}

// PlainTree wraps a source tree without fast marks.
func PlainTree(s *Src) *DTree {
	t := &DTree{S: s, Idx: -1}
	for _, k := range s.Kids {
		t.Kids = append(t.Kids, PlainTree(k))
	}
	return t
}
