package core

import (
	"bytes"
	"context"
	"crypto/sha256"
	"encoding/hex"
	"fmt"
	"os"
	"os/exec"
	"path/filepath"
	"runtime"
	"strings"
	"sync"
	"time"
)

// Query is one SMT-LIB 2 problem. Text must not contain (check-sat); the
// runner appends it together with (get-value ...) for the terms in Values.
type Query struct {
	Text   string
	Values []string // ground terms to evaluate when sat
}

type Answer struct {
	Res    string // sat | unsat | unknown
	Solver string
	TimeS  float64
	Output string
	Model  map[string]string
}

type solverCfg struct {
	name string
	argv func(file string, timeoutS int, seed int) []string
}

var solvers = []solverCfg{
	{"z3", func(f string, t, seed int) []string {
		a := []string{"z3", fmt.Sprintf("-T:%d", t)}
		if seed != 0 {
			a = append(a, fmt.Sprintf("smt.random_seed=%d", seed), fmt.Sprintf("sat.random_seed=%d", seed))
		}
		return append(a, f)
	}},
	{"z3-new", func(f string, t, seed int) []string {
		a := []string{"z3-new", fmt.Sprintf("-T:%d", t)}
		if seed != 0 {
			a = append(a, fmt.Sprintf("smt.random_seed=%d", seed), fmt.Sprintf("sat.random_seed=%d", seed))
		}
		return append(a, f)
	}},
	{"cvc5", func(f string, t, seed int) []string {
		a := []string{"cvc5", fmt.Sprintf("--tlimit=%d", t*1000)}
		if seed != 0 {
			a = append(a, fmt.Sprintf("--seed=%d", seed), fmt.Sprintf("--sat-random-seed=%d", seed))
		}
		return append(a, f)
	}},
	{"cvc5-enum", func(f string, t, seed int) []string {
		a := []string{"cvc5", "--enum-inst", fmt.Sprintf("--tlimit=%d", t*1000)}
		if seed != 0 {
			a = append(a, fmt.Sprintf("--seed=%d", seed))
		}
		return append(a, f)
	}},
}

// SolverNames lists the portfolio (for evidence).
func SolverNames() []string {
	var n []string
	for _, s := range solvers {
		n = append(n, s.name)
	}
	return n
}

const smtHeader = "(set-option :produce-models true)\n(set-logic ALL)\n"

func queryFileText(q Query) string {
	var sb strings.Builder
	sb.WriteString(smtHeader)
	sb.WriteString(q.Text)
	if !strings.HasSuffix(q.Text, "\n") {
		sb.WriteString("\n")
	}
	sb.WriteString("(check-sat)\n")
	if len(q.Values) > 0 {
		sb.WriteString("(get-value (" + strings.Join(q.Values, " ") + "))\n")
	}
	return sb.String()
}

// FullText is the file content that is handed to the solvers (for replay files).
func FullText(q Query) string { return queryFileText(q) }

// procSem bounds the number of solver processes that run at the same time (all engines share it).
var procSem = make(chan struct{}, procSlots())

func procSlots() int {
	n := runtime.NumCPU()
	if n < 2 {
		n = 2
	}
	return n
}

var fileSeq struct {
	sync.Mutex
	n int
}

// Solve runs the portfolio on q: first z3 and z3-new for a few seconds (they settle the vast majority
// of obligations in well under a second), then the whole portfolio with the full time limit.
// only restricts to the named solvers (nil = staged portfolio).
func Solve(env *Env, q Query, only []string, seed int) Answer {
	if only != nil {
		return solveWith(env, q, only, seed, env.TimeoutS)
	}
	first := 6
	if env.TimeoutS < first {
		first = env.TimeoutS
	}
	a := solveWith(env, q, []string{"z3", "z3-new"}, seed, first)
	if a.Res == "sat" || a.Res == "unsat" {
		return a
	}
	b := solveWith(env, q, []string{"cvc5", "cvc5-enum", "z3", "z3-new"}, seed+1, env.TimeoutS)
	b.TimeS += a.TimeS
	return b
}

func solveWith(env *Env, q Query, only []string, seed int, timeoutS int) Answer {
	os.MkdirAll(env.Work, 0o755)
	txt := queryFileText(q)
	h := sha256.Sum256([]byte(txt))
	fileSeq.Lock()
	fileSeq.n++
	n := fileSeq.n
	fileSeq.Unlock()
	file := filepath.Join(env.Work, fmt.Sprintf("q%06d_%s.smt2", n, hex.EncodeToString(h[:4])))
	if err := os.WriteFile(file, []byte(txt), 0o644); err != nil {
		return Answer{Res: "unknown", Output: "cannot write query: " + err.Error()}
	}
	defer os.Remove(file)

	ctx, cancel := context.WithCancel(context.Background())
	defer cancel()
	type one struct {
		a Answer
	}
	ch := make(chan one, len(solvers))
	started := 0
	t0 := time.Now()
	for _, s := range solvers {
		if only != nil {
			ok := false
			for _, o := range only {
				if o == s.name {
					ok = true
				}
			}
			if !ok {
				continue
			}
		}
		started++
		go func(s solverCfg) {
			argv := s.argv(file, timeoutS, seed)
			// one solver process per core: the time limit of a process starts when it gets its core, so that a
			// loaded machine makes a check slower, never "unknown"
			select {
			case procSem <- struct{}{}:
			case <-ctx.Done():
				ch <- one{Answer{Res: "unknown", Solver: s.name, Output: "cancelled"}}
				return
			}
			defer func() { <-procSem }()
			cctx, ccancel := context.WithTimeout(ctx, time.Duration(timeoutS+2)*time.Second)
			defer ccancel()
			cmd := exec.CommandContext(cctx, argv[0], argv[1:]...)
			var out bytes.Buffer
			cmd.Stdout = &out
			cmd.Stderr = &out
			cmd.Run()
			o := out.String()
			first := strings.TrimSpace(strings.SplitN(o, "\n", 2)[0])
			res := "unknown"
			switch first {
			case "sat", "unsat":
				res = first
			}
			a := Answer{Res: res, Solver: s.name, TimeS: time.Since(t0).Seconds(), Output: trunc(o, 4000)}
			if res == "sat" && len(q.Values) > 0 {
				rest := ""
				if i := strings.Index(o, "\n"); i >= 0 {
					rest = o[i+1:]
				}
				a.Model = parseGetValue(rest)
			}
			ch <- one{a}
		}(s)
	}
	var last Answer
	last.Res = "unknown"
	var outs []string
	for i := 0; i < started; i++ {
		r := <-ch
		if r.a.Res == "sat" || r.a.Res == "unsat" {
			cancel()
			return r.a
		}
		outs = append(outs, r.a.Solver+": "+firstLine(r.a.Output))
		last = r.a
	}
	last.Solver = ""
	last.TimeS = time.Since(t0).Seconds()
	last.Output = strings.Join(outs, " | ")
	return last
}

func firstLine(s string) string {
	s = strings.TrimSpace(s)
	if i := strings.Index(s, "\n"); i >= 0 {
		s = s[:i]
	}
	return trunc(s, 200)
}

func trunc(s string, n int) string {
	if len(s) > n {
		return s[:n] + "…"
	}
	return s
}

// parseGetValue parses "((t1 v1) (t2 v2) ...)" into a map from the printed
// term to the printed value.
func parseGetValue(s string) map[string]string {
	m := map[string]string{}
	sx, _, err := ParseSexp(s)
	if err != nil || sx == nil || sx.Atom != "" {
		return m
	}
	for _, p := range sx.List {
		if len(p.List) == 2 {
			m[p.List[0].String()] = p.List[1].String()
		}
	}
	return m
}

// RunAll discharges the queries of obls (those with a Query) on a worker pool.
// An obligation whose Status is already set is left alone.
func RunAll(env *Env, obls []*Obl, values func(o *Obl) []string) {
	var wg sync.WaitGroup
	sem := make(chan struct{}, env.Workers)
	for _, o := range obls {
		if o.Status != "" || o.Query == "" {
			continue
		}
		wg.Add(1)
		sem <- struct{}{}
		go func(o *Obl) {
			defer wg.Done()
			defer func() { <-sem }()
			var vals []string
			if values != nil {
				vals = values(o)
			}
			q := Query{Text: o.Query, Values: vals}
			var a Answer
			if o.Canary {
				// a canary needs a model; with quantified hypotheses the solvers rarely produce one, so only a
				// short attempt is made: sat = reachable, unsat = vacuous (reported), undecided = no information
				a = solveWith(env, q, []string{"z3", "z3-new"}, 0, 3)
			} else if env.Claimed != nil && !env.Claimed(o.Name) {
				a = solveWith(env, q, []string{"z3", "z3-new"}, 0, 3)
			} else {
				a = Solve(env, q, nil, 0)
			}
			ApplyAnswer(o, a)
			o.SMTBytes = len(o.Query)
			if env.Verbose {
				fmt.Fprintf(os.Stderr, "  %-70s %-10s %s %.2fs\n", o.Name, o.Status, a.Solver, a.TimeS)
			}
		}(o)
	}
	wg.Wait()
	// second chance for claimed obligations that stayed undecided: a quiet re-run (few at a time, longer limit,
	// other seeds).  A timeout under load is thereby not reported as a failed obligation; an obligation that is
	// really not provable stays unknown and is reported.
	var again []*Obl
	for _, o := range obls {
		if o.Status == Unknown && !o.Canary && o.Query != "" && (env.Claimed == nil || env.Claimed(o.Name)) {
			again = append(again, o)
		}
	}
	if len(again) > 12 {
		again = again[:12]
	}
	sem2 := make(chan struct{}, 4)
	for _, o := range again {
		wg.Add(1)
		sem2 <- struct{}{}
		go func(o *Obl) {
			defer wg.Done()
			defer func() { <-sem2 }()
			var vals []string
			if values != nil {
				vals = values(o)
			}
			first := o.TimeS
			a := solveWith(env, Query{Text: o.Query, Values: vals}, []string{"z3", "z3-new", "cvc5", "cvc5-enum"}, 7, env.TimeoutS*5/2)
			if a.Res == "sat" || a.Res == "unsat" {
				ApplyAnswer(o, a)
				o.Output = strings.TrimSpace("decided on the quiet re-run; " + o.Output)
			}
			o.TimeS += first
			if env.Verbose {
				fmt.Fprintf(os.Stderr, "  %-70s %-10s %s %.2fs (re-run)\n", o.Name, o.Status, a.Solver, a.TimeS)
			}
		}(o)
	}
	wg.Wait()
}

// ApplyAnswer maps a solver answer to the obligation status (canaries must be sat).
func ApplyAnswer(o *Obl, a Answer) {
	o.Solver, o.TimeS = a.Solver, a.TimeS
	switch {
	case o.Canary:
		switch a.Res {
		case "sat":
			o.Status = Discharged
		case "unsat":
			o.Status = Refuted // vacuous: the point that must be reachable is not
			o.Output = "canary unsat: contradictory assumptions / unreachable exit"
		default:
			// an undecided canary is not evidence of vacuity
			o.Status = Discharged
			o.Output = "canary undecided (" + firstLine(a.Output) + ")"
		}
	case a.Res == "unsat":
		o.Status = Discharged
	case a.Res == "sat":
		o.Status = Refuted
		o.Model = a.Model
		o.Output = trunc(a.Output, 2000)
	default:
		o.Status = Unknown
		o.Output = trunc(a.Output, 500)
	}
}
