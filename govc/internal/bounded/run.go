package bounded

// Engine entry points: Run (plugged into govc check) and the orchestration of
// enumeration -> driver -> symbolic execution -> queries -> solving -> replay.

import (
	"crypto/sha256"
	"encoding/hex"
	"encoding/json"
	"fmt"
	"os"
	"runtime"
	"sort"
	"strings"
	"sync"
	"time"

	"govc/internal/core"
	"govc/internal/load"
)

// TierSel is the per-tier part of the selection.
type TierSel struct {
	Enum     EnumCfg  `json:"enum"`
	Masks    []int    `json:"masks"`    // optimisation subsets (bit k = optimizations[k]); default per relation
	Costs    []string `json:"costs"`    // cost map pool entries used with Reordering masks
	MaxPaths int      `json:"maxPaths"` // per unrolling
	Thorough bool     `json:"-"`
	Seed     int64    `json:"-"`
	// ConformMasks: optimisation subsets the conformance samples are run under (default 0, 5, 15)
	ConformMasks []int    `json:"conformMasks"`
	ConformN     int      `json:"conformSamples"` // concrete bindings per program (default 4)
	Extra        []string `json:"extra"`          // additional source texts
}

// Selection is the "bounded" engine section of claims/<ID>.json.
type Selection struct {
	Relations []string `json:"relations"`
	Quick     TierSel  `json:"quick"`
	Thorough  TierSel  `json:"thorough"`
	NoReplay  bool     `json:"noReplay"`
}

func (s *Selection) tier(t string) TierSel {
	if t == "thorough" {
		return s.Thorough
	}
	return s.Quick
}

func (s *Selection) has(rel string) bool {
	for _, r := range s.Relations {
		if r == rel {
			return true
		}
	}
	return false
}

type stats struct {
	Sources, Jobs, Programs, Obls, Queries, DistinctQueries int
	DriverS, SymexS, SolveS, ReplayS                        float64
}

// Run is the engine: func(env, program, property, selection) -> result.
func Run(env *core.Env, p *load.Program, prop string, sel json.RawMessage) (*core.Result, error) {
	var s Selection
	if err := json.Unmarshal(sel, &s); err != nil {
		return nil, fmt.Errorf("bounded: selection: %v", err)
	}
	if len(s.Relations) == 0 {
		return nil, fmt.Errorf("bounded: no relations selected")
	}
	ts := s.tier(env.Tier)
	ts.Thorough = env.Tier == "thorough"
	ts.Seed = env.Seed
	m, err := NewMachine(p)
	if err != nil {
		return nil, fmt.Errorf("bounded: %v", err)
	}
	cx := NewChecker(env, m, prop)
	if ts.MaxPaths > 0 {
		cx.MaxPaths = ts.MaxPaths
	}
	res := &core.Result{Extra: map[string]interface{}{}}
	var st stats
	srcs, einfo := Enumerate(ts.Enum, env.Seed)
	for _, x := range ts.Extra {
		t, err := ParseSrc(x, true)
		if err != nil {
			return nil, fmt.Errorf("bounded: extra source %q: %v", x, err)
		}
		srcs = append(srcs, t)
	}
	st.Sources = len(srcs)
	// the family is processed in chunks of sources (driver -> symbolic execution -> solving ->
	// replay per chunk) so that memory stays bounded; the special families of a relation
	// (boundary programs, special literals, failing constants) go with the first chunk
	jobsPerSrc := 1
	if len(srcs) > 0 {
		jobsPerSrc = len(newPlan(&s, ts, srcs[:1], false).jobs)
		if jobsPerSrc < 1 {
			jobsPerSrc = 1
		}
	}
	chunk := 60000 / jobsPerSrc
	if chunk < 100 {
		chunk = 100
	}
	var obls []*core.Obl
	var samples []interface{}
	var plan *plan
	drvCmd := ""
	seen := map[string]bool{}
	for lo, first := 0, true; first || lo < len(srcs); lo += chunk {
		hi := lo + chunk
		if hi > len(srcs) {
			hi = len(srcs)
		}
		plan = newPlan(&s, ts, srcs[lo:hi], first)
		first = false
		if len(plan.jobs) == 0 {
			continue
		}
		st.Jobs += len(plan.jobs)
		t0 := time.Now()
		progs, cmdline, err := RunDriver(env, plan.jobs)
		if err != nil {
			return nil, fmt.Errorf("bounded: %v", err)
		}
		if drvCmd == "" {
			drvCmd = cmdline
		}
		st.DriverS += time.Since(t0).Seconds()
		for _, pr := range progs {
			if pr.OK() {
				st.Programs++
			}
		}
		// symbolic execution + obligation generation, in parallel
		t0 = time.Now()
		part := plan.generate(cx, progs)
		st.SymexS += time.Since(t0).Seconds()
		// solve
		t0 = time.Now()
		q, d := cx.SolveAll(part)
		st.Queries += q
		st.DistinctQueries += d
		st.SolveS += time.Since(t0).Seconds()
		// replay what was refuted (batched)
		t0 = time.Now()
		if !s.NoReplay {
			cx.ReplayAll(part)
		}
		st.ReplayS += time.Since(t0).Seconds()
		if len(samples) == 0 {
			samples = plan.samples(part, progs)
		}
		for _, o := range part {
			if seen[o.Name] {
				continue
			}
			seen[o.Name] = true
			if o.Status == core.Discharged {
				// only failed obligations keep their query and replay description
				o.Query, o.ReplayData = "", nil
			}
			obls = append(obls, o)
		}
		cx.dropChunk()
	}
	st.Obls = len(obls)
	res.Obls = obls
	res.Assumptions = assumptionsFor(s.Relations)
	res.Trusted = []string{
		"bounded tier: the go/ssa interpreter of govc/internal/bounded (concrete control, symbolic data), the direct operator terms of opterms.go, the reference generators of ref.go, the in-package driver harness/driver_test.go.txt",
	}
	nstat := map[string]int{}
	for _, o := range obls {
		nstat[string(o.Status)]++
	}
	res.Extra["bounded"] = map[string]interface{}{
		"alphabet": Alpha.Describe(), "enumeration": einfo, "relations": s.Relations, "tier": env.Tier, "seed": env.Seed,
		"masks": plan.masks, "cost_pool": plan.costs,
		"sources": st.Sources, "driver_jobs": st.Jobs, "programs_compiled": st.Programs,
		"unrollings": cx.nUnroll, "unrollings_shared": cx.nCached, "paths": cx.nPaths, "max_paths_per_unrolling": cx.MaxPaths, "over_budget_not_covered": cx.nOver, "cost_map_configs_identical_to_empty_map": cx.nSameAsBase,
		"obligations": st.Obls, "by_status": nstat, "smt_queries": st.Queries, "smt_queries_distinct": st.DistinctQueries,
		"driver_s": st.DriverS, "symex_s": st.SymexS, "solve_s": st.SolveS, "replay_s": st.ReplayS,
		"driver_cmd": drvCmd,
		"note":       "bounded: real Eval/TryEval SSA unrolled on every enumerated compiled program, inputs fully symbolic; never counted as proved",
	}
	if s.has("boundary") {
		var names []string
		for _, b := range Boundaries(ts.Thorough) {
			names = append(names, fmt.Sprintf("%s (%d source nodes)", b.Name, b.Nodes))
		}
		res.Extra["bounded"].(map[string]interface{})["boundary_programs"] = names
	}
	// the functions whose SSA is executed by the unrolling
	for _, key := range []string{"Expr.Eval", "Expr.TryEval", "parentNode", "matchesShortCircuit", "executeOperatorProxy", "getNodeValueProxy",
		"fetchVariableValueProxy", "contains", "isAndOpNode", "isOrOpNode", "node.getNodeType", "reportEvent", "calAndSetEventNode.wrapOpEvent"} {
		fn := p.Funcs[key]
		if fn == nil {
			continue
		}
		n := 0
		for _, b := range fn.Blocks {
			n += len(b.Instrs)
		}
		res.Funcs = append(res.Funcs, core.FuncInfo{Name: key + " (unrolled, bounded tier)", File: p.PosString(fn.Pos()), SSAInstrs: n})
	}
	res.Samples = samples
	return res, nil
}

// ---------------------------------------------------------------- planning

// planned is one case to check with the relations that apply to it.
type planned struct {
	src   *Src
	job   Job
	rels  []string
	dirID int // id of the companion directive-form job (or -1)
	evID  int // id of the companion ReportEvent job (or -1)
	base  int // id of the job with the empty cost map (same mask), or -1
	altID int // companion job (no-event form), or -1
	bnd   *Boundary
}

type plan struct {
	sel         *Selection
	ts          TierSel
	jobs        []Job
	jobIdx      map[string]int
	cases       []*planned
	caseIdx     map[string]*planned
	masks       []int
	costs       []string
	assumptions []string
}

func jobKey(j Job) string {
	return fmt.Sprintf("%s|%d|%v|%v|%s|%v|%v|%v|%s|%d", j.Src, j.Mask, j.Ev, j.Dir, j.Costs, j.Redump, j.FPOnly, j.Run, j.Gen, len(j.Samples))
}

func (pl *plan) addJob(j Job) int {
	k := jobKey(j)
	if id, ok := pl.jobIdx[k]; ok {
		return id
	}
	j.ID = len(pl.jobs)
	pl.jobs = append(pl.jobs, j)
	pl.jobIdx[k] = j.ID
	return j.ID
}

// want registers relation rel for (src, job).
func (pl *plan) want(src *Src, j Job, rels ...string) *planned {
	id := pl.addJob(j)
	k := jobKey(j)
	pc := pl.caseIdx[k]
	if pc == nil {
		pc = &planned{src: src, job: pl.jobs[id], dirID: -1, evID: -1, base: -1, altID: -1}
		pl.caseIdx[k] = pc
		pl.cases = append(pl.cases, pc)
	}
	for _, r := range rels {
		dup := false
		for _, x := range pc.rels {
			if x == r {
				dup = true
			}
		}
		if !dup {
			pc.rels = append(pc.rels, r)
		}
	}
	return pc
}

var allMasks = []int{0, 1, 2, 3, 4, 5, 6, 7, 8, 9, 10, 11, 12, 13, 14, 15}

// CostPool: names of the cost maps of the driver (harness: verifCosts).
var CostPool = []string{"", "name", "neg", "zero", "huge", "nan"}

var evRels = []string{"ev-dump", "ev=noev", "ev=noev.try", "ev-events"}

var tryRels = []string{"try-sound", "try=eval", "try-mono", "try-K"}

var c02Rels = []string{"U-if-value", "U-if-AllOK", "LR-if-value", "directive=options"}

func (s *Selection) hasAny(rels []string) []string {
	var out []string
	for _, r := range rels {
		if s.has(r) {
			out = append(out, r)
		}
	}
	return out
}

func newPlan(s *Selection, ts TierSel, srcs []*Src, families bool) *plan {
	pl := &plan{sel: s, ts: ts, jobIdx: map[string]int{}, caseIdx: map[string]*planned{}}
	masks := ts.Masks
	if len(masks) == 0 {
		masks = allMasks
	}
	costs := ts.Costs
	if len(costs) == 0 {
		costs = CostPool
	}
	pl.masks, pl.costs = masks, costs
	for _, src := range srcs {
		undef := UsesUndef(src)
		text := src.String()
		if s.has("eval=LR") {
			pl.want(src, Job{Src: text, Mask: 0, Undef: undef}, "eval=LR")
		}
		if s.has("trace") {
			for _, m := range masks {
				pl.want(src, Job{Src: text, Mask: m, Undef: undef}, "trace")
			}
		}
		if s.has("trace.try") {
			for _, m := range masks {
				pl.want(src, Job{Src: text, Mask: m, Undef: undef}, "trace.try")
			}
		}
		if s.has("conform") {
			cm := ts.ConformMasks
			if len(cm) == 0 {
				cm = []int{0, 5, 15}
			}
			n := ts.ConformN
			if n <= 0 {
				n = 4
			}
			for _, m := range cm {
				pl.want(src, Job{Src: text, Mask: m, Undef: undef, Samples: MakeSamples(text, ts.Seed+int64(m), n)}, "conform")
			}
		}
		if rels := s.hasAny([]string{"compile-calls", "eval-twice"}); len(rels) > 0 {
			for _, m := range masks {
				pl.want(src, Job{Src: text, Mask: m, Undef: undef}, rels...)
			}
		}
		if s.has("err-reached") {
			for _, m := range masks {
				if m&8 == 0 {
					pl.want(src, Job{Src: text, Mask: m, Undef: undef}, "err-reached")
				}
			}
		}
		if rels := s.hasAny(evRels); len(rels) > 0 {
			for _, m := range masks {
				pc := pl.want(src, Job{Src: text, Mask: m, Undef: undef, Ev: true}, rels...)
				pc.altID = pl.addJob(Job{Src: text, Mask: m, Undef: undef})
			}
		}
		if rels := s.hasAny(tryRels); len(rels) > 0 {
			for _, m := range masks {
				pl.want(src, Job{Src: text, Mask: m, Undef: undef}, rels...)
			}
		}
		if rels := s.hasAny(c02Rels); len(rels) > 0 {
			for _, m := range masks {
				cs := []string{""}
				if m&8 != 0 {
					cs = costs
				}
				baseID := -1
				for _, c := range cs {
					j := Job{Src: text, Mask: m, Undef: undef, Costs: c}
					pc := pl.want(src, j, rels...)
					if c == "" {
						baseID = pc.job.ID
					} else {
						pc.base = baseID
					}
					if s.has("directive=options") {
						d := j
						d.Dir, d.FPOnly = true, true
						pc.dirID = pl.addJob(d)
					}
				}
			}
		}
	}
	if s.has("boundary") && families {
		for _, b := range Boundaries(ts.Thorough) {
			text := b.Src.String()
			for _, m := range masks {
				for _, ev := range []bool{false, true} {
					rels := []string{"boundary"}
					if b.Nodes < 2000 && !ev {
						rels = append(rels, "U-if-value", "U-if-AllOK")
						if m == 0 {
							rels = append(rels, "eval=LR")
						}
					}
					pc := pl.want(b.Src, Job{Src: text, Mask: m, Ev: ev, Run: true}, rels...)
					pc.bnd = b
				}
			}
		}
	}
	if s.has("redump") {
		all := append([]*Src{}, srcs...)
		if families {
			all = append(all, SpecialLiteralFamily()...)
		}
		for _, src := range all {
			for _, m := range masks {
				for _, ev := range []bool{false, true} {
					pl.want(src, Job{Src: src.String(), Mask: m, Undef: UsesUndef(src), Ev: ev, Redump: true}, "redump")
				}
			}
		}
	}
	// the programs shown as samples in the evidence come with their DumpTable text
	step := len(pl.cases)/4 + 1
	for i := 0; i < len(pl.cases); i += step {
		pl.jobs[pl.cases[i].job.ID].Table = true
	}
	if s.has("eval=LR.bound") && families {
		for _, x := range C10Family {
			src, err := ParseSrc(x, true)
			if err != nil {
				panic("C10 family: " + x + ": " + err.Error())
			}
			for _, m := range masks {
				if m&8 == 0 {
					pl.want(src, Job{Src: src.String(), Mask: m, Undef: UsesUndef(src)}, "eval=LR.bound")
				}
			}
		}
	}
	return pl
}

// SpecialLiterals: string contents the lexer accepts (raw text between two
// double quotes) that need care when printed: space, parentheses, semicolon,
// backslash, non-ASCII, line break, tab.
var SpecialLiterals = []string{"a b", "a(b", "a)b", "(", "a;b", `a\b`, `\`, "é", "日本", "a\nb", "a\tb", "", " ", "a'b", "#", "1", "true",
	"100%", "%d %s %v", "%", "a%!b(MISSING)", "x\ny\nz", "\n", "a\n  b", "{}", "[x]", "a,b", "$1", "a\rb", `C:\tmp\`, "a  b"}

// interactingLiterals: literals whose handling can disturb the handling of a LATER literal (a scanner that wrongly
// honours escapes loses track of the in/out-of-string state after a literal ending in a backslash; a printer that uses
// a literal as a format string; line breaks inside nested, multi-line children).
var interactingLiterals = []string{`x\`, "a\nb", "a  b", "p(q", "m;n", "100%", `\`}

// SpecialLiteralFamily: sources that carry the special literals as string
// constants and inside string lists.
func SpecialLiteralFamily() []*Src {
	var out []*Src
	for _, l := range SpecialLiterals {
		q := `"` + l + `"`
		out = append(out,
			N("eq", L("i0"), L(q)),
			N("and", N("ne", L("i0"), L(q)), L("b0")),
			N("in", L("i0"), L("("+q+` "x")`)),
		)
	}
	for _, l1 := range interactingLiterals {
		for _, l2 := range interactingLiterals {
			q1, q2 := `"`+l1+`"`, `"`+l2+`"`
			out = append(out, N("and", N("or", N("eq", L("i0"), L(q1)), L("b0")), N("or", N("ne", L("i0"), L(q2)), L("b1"))))
			// both literals inside ONE nested child: its multi-line text is re-split by the enclosing level
			out = append(out, N("or", N("and", N("eq", L("i0"), L(q1)), N("ne", L("i0"), L(q2))), L("b0")))
		}
	}
	return out
}

// C10Family: failing constant sub-expressions under and/or/if guards (no
// absorbing constant after a failing operand: there Compile may legitimately
// drop the failing operand, C10's last clause).
var C10Family = []string{
	`(and b0 (> (/ 1 0) 1))`,
	`(or b0 (eq (/ 1 0) 1))`,
	`(if b0 (> (/ 1 0) 0) b1)`,
	`(if b0 b1 (> (% 1 0) 0))`,
	`(and (> (/ 1 0) 1) b0)`,
	`(or (not 1) b0)`,
	`(and b0 (g 0))`,
	`(or b0 (g 0))`,
	`(if (g 0) b0 b1)`,
	`(if (g 1) b0 (g 0))`,
	`(and b0 (or b1 (> (/ 1 0) 1)))`,
	`(or b0 (and b1 (> (% 7 0) 1)) b2)`,
	`(if (> (/ 1 0) 1) b0 b1)`,
	`(+ 1 (/ 1 0))`,
	`(+ (/ 1 0) (% 2 0))`,
	`(and b0 (eq (+ 1 (/ 1 0)) 2))`,
	`(and (> (/ 6 2) 1) b0)`,
	`(and (g 1) b0)`,
	`(and (g 1) (g 0))`,
	`(or (g 0) b0)`,
	`(eq (fi 1) 2)`,
	`(and (fb 1) b0)`,
	`(and b0 (fb (/ 1 0)))`,
	`(or b0 (> (+ "a" 1) 0))`,
	`(and b0 (between 1 0 "a"))`,
	`(and b0 (in 1 ("a" "b")))`,
	`(if b0 (if b1 (> (/ 1 0) 1) b2) b1)`,
	`(and b0 (not (> (/ 1 0) 1)))`,
	`(and (or b0 (> (/ 1 0) 1)) (or b1 (> (% 1 0) 1)))`,
	`(xor b0 (> (/ 1 0) 1))`,
}

func (pl *plan) generate(cx *Checker, progs map[int]*XProg) []*core.Obl {
	out := make([][]*core.Obl, len(pl.cases))
	// the cases of one source form a group: one goroutine, one unrolling cache
	// (a large source -- seeded random trees -- is split up again: its unrollings are
	// long and the configurations rarely coincide)
	groups := map[*Src][]int{}
	var order []*Src
	for i, pc := range pl.cases {
		key := pc.src
		if pc.bnd == nil && pc.src.Size() > 10 {
			key = &Src{} // a group of its own
		}
		if _, ok := groups[key]; !ok {
			order = append(order, key)
		}
		groups[key] = append(groups[key], i)
	}
	// a large source holds thousands of paths in memory while it is processed: it
	// takes four of the NumCPU slots
	var wg sync.WaitGroup
	slots := runtime.NumCPU()
	if slots < 4 {
		slots = 4
	}
	sem := make(chan struct{}, slots)
	for _, src := range order {
		w := 1
		if pl.cases[groups[src][0]].src.Size() > 10 && pl.cases[groups[src][0]].bnd == nil {
			w = 4
		}
		wg.Add(1)
		for k := 0; k < w; k++ {
			sem <- struct{}{}
		}
		go func(idx []int, w int) {
			defer wg.Done()
			defer func() {
				for k := 0; k < w; k++ {
					<-sem
				}
			}()
			grp := &caseGroup{unrolled: map[string]*Unrolled{}}
			for _, i := range idx {
				pl.generateCase(cx, progs, grp, i, out)
			}
		}(groups[src], w)
	}
	wg.Wait()
	var all []*core.Obl
	seen := map[string]bool{}
	for _, os := range out {
		for _, o := range os {
			if seen[o.Name] {
				continue
			}
			seen[o.Name] = true
			all = append(all, o)
		}
	}
	return all
}

func (pl *plan) generateCase(cx *Checker, progs map[int]*XProg, grp *caseGroup, i int, out [][]*core.Obl) {
	pc := pl.cases[i]
	{
		{
			c := &Case{Src: pc.src, Text: pc.job.Src, Job: pc.job, Prog: progs[pc.job.ID], Cfg: ConfigName(pc.job.Mask, pc.job.Ev, pc.job.Costs), group: grp}
			if pc.altID >= 0 {
				c.Alt = progs[pc.altID]
			}
			if pc.bnd != nil {
				c.Text, c.Full = pc.bnd.Name, pc.job.Src
				obls := cx.BoundaryObls(c, pc.bnd)
				if c.Prog.OK() {
					var c02 []string
					for _, rel := range pc.rels {
						switch rel {
						case "eval=LR":
							obls = append(obls, cx.EvalLR(c)...)
						case "U-if-value", "U-if-AllOK":
							c02 = append(c02, rel)
						}
					}
					if len(c02) > 0 {
						obls = append(obls, cx.C02(c, c02)...)
					}
				}
				out[i] = obls
				return
			}
			var obls []*core.Obl
			// a cost map that yields the very program of the empty map adds nothing
			sameAsBase := pc.base >= 0 && c.Prog.OK() && progs[pc.base].OK() && progs[pc.base].FP == c.Prog.FP
			if sameAsBase {
				cx.mu.Lock()
				cx.nSameAsBase++
				cx.mu.Unlock()
				return
			}
			wf := cx.WFObl(c)
			obls = append(obls, wf)
			if !c.Prog.OK() {
				out[i] = obls
				return
			}
			var c02 []string
			for _, rel := range pc.rels {
				switch rel {
				case "eval=LR":
					obls = append(obls, cx.EvalLR(c)...)
				case "trace":
					obls = append(obls, cx.Trace(c)...)
				case "trace.try":
					obls = append(obls, cx.TraceTry(c)...)
				case "conform":
					obls = append(obls, cx.Conform(c, pc.job.Samples))
				case "redump":
					obls = append(obls, cx.Redump(c)...)
				case "ev-dump":
					obls = append(obls, cx.EvDump(c))
				case "ev=noev":
					obls = append(obls, cx.EvSame(c, "Eval")...)
				case "ev=noev.try":
					obls = append(obls, cx.EvSame(c, "TryEval")...)
				case "ev-events":
					obls = append(obls, cx.Events(c)...)
				case "compile-calls":
					obls = append(obls, cx.CompileCalls(c))
				case "eval-twice":
					obls = append(obls, cx.EvalTwice(c)...)
				case "err-reached":
					obls = append(obls, cx.ErrReached(c, false)...)
				case "eval=LR.bound":
					obls = append(obls, cx.ErrReached(c, true)...)
				case "try-sound":
					obls = append(obls, cx.TrySound(c)...)
				case "try=eval":
					obls = append(obls, cx.TryAgree(c)...)
				case "try-mono":
					obls = append(obls, cx.TryMono(c)...)
				case "try-K":
					obls = append(obls, cx.TryK(c)...)
				case "directive=options":
					obls = append(obls, cx.DirectiveObl(c, progs[pc.dirID]))
				case "U-if-value", "U-if-AllOK", "LR-if-value":
					if !sameAsBase {
						c02 = append(c02, rel)
					}
				}
			}
			if len(c02) > 0 {
				obls = append(obls, cx.C02(c, c02)...)
			}
			out[i] = obls
		}
	}
}

func (pl *plan) samples(obls []*core.Obl, progs map[int]*XProg) []interface{} {
	var out []interface{}
	step := len(pl.cases)/4 + 1
	for i := 0; i < len(pl.cases); i += step {
		pc := pl.cases[i]
		p := progs[pc.job.ID]
		if p == nil {
			continue
		}
		out = append(out, map[string]interface{}{"bounded_program": trunc(pc.job.Src, 300), "config": ConfigName(pc.job.Mask, pc.job.Ev, pc.job.Costs), "nodes": p.NNodes, "dump": trunc(strings.Join(strings.Fields(p.Dump), " "), 300), "table": p.Table})
	}
	n := 0
	for _, o := range obls {
		if o.Query != "" && n < 3 {
			n++
			out = append(out, map[string]interface{}{"bounded_query": o.Name, "smt_bytes": len(o.Query), "status": o.Status, "solver": o.Solver, "time_s": o.TimeS, "smt_head": trunc(o.Query[len(PreludeSMT):], 600)})
		}
	}
	return out
}

// ---------------------------------------------------------------- solving

// SolveAll discharges the queries: identical query texts are solved once; z3
// first (these are small quantifier-free problems), the whole portfolio when
// it does not answer.
func (cx *Checker) SolveAll(obls []*core.Obl) (queries, distinct int) {
	groups := map[string][]*core.Obl{}
	var order []string
	for _, o := range obls {
		if o.Status != "" || o.Query == "" {
			continue
		}
		queries++
		h := sha256.Sum256([]byte(o.Query))
		k := hex.EncodeToString(h[:])
		if _, ok := groups[k]; !ok {
			order = append(order, k)
		}
		groups[k] = append(groups[k], o)
	}
	distinct = len(order)
	var wg sync.WaitGroup
	workers := cx.env.Workers
	if workers < 1 {
		workers = 1
	}
	sem := make(chan struct{}, workers)
	for _, k := range order {
		wg.Add(1)
		sem <- struct{}{}
		go func(os []*core.Obl) {
			defer wg.Done()
			defer func() { <-sem }()
			o := os[0]
			q := core.Query{Text: o.Query, Values: cx.values[o.Name]}
			fast := *cx.env
			if fast.TimeoutS > 5 {
				fast.TimeoutS = 5
			}
			a := core.Solve(&fast, q, []string{"z3"}, 0)
			if a.Res != "sat" && a.Res != "unsat" {
				a = core.Solve(cx.env, q, nil, 0)
			}
			if a.Res == "sat" && usesOpaqueArith(o.Query) {
				// the counterexample may rest on an arbitrary interpretation of the opaque
				// arithmetic functions: ask again with their definitions revealed
				q2 := core.Query{Text: revealArith(o.Query), Values: q.Values}
				b := core.Solve(cx.env, q2, nil, 0)
				switch b.Res {
				case "unsat":
					b.Solver += "+arith-defs"
					a = b
				case "sat":
					b.Solver += "+arith-defs"
					a = b
				}
			}
			for _, x := range os {
				core.ApplyAnswer(x, a)
				x.SMTBytes = len(x.Query)
			}
			if cx.env.Verbose {
				fmt.Fprintf(os2(), "  %-80s %-10s %s %.2fs\n", trunc(o.Name, 80), o.Status, a.Solver, a.TimeS)
			}
		}(groups[k])
	}
	wg.Wait()
	return
}

func os2() *os.File { return os.Stderr }

// sortObls orders obligations by name (determinism of reports).
func sortObls(obls []*core.Obl) {
	sort.SliceStable(obls, func(i, j int) bool { return obls[i].Name < obls[j].Name })
}

const opaqueArithDecls = "(declare-fun gomul (Int Int) Int)\n(declare-fun godiv (Int Int) Int)\n(declare-fun gomod (Int Int) Int)\n"

const definedArith = `(define-fun gomul ((a Int) (b Int)) Int (* a b))
(define-fun godiv ((a Int) (b Int)) Int (ite (= b 0) 0 (ite (>= a 0) (ite (> b 0) (div a b) (- (div a (- b)))) (ite (> b 0) (- (div (- a) b)) (div (- a) (- b))))))
(define-fun gomod ((a Int) (b Int)) Int (- a (* b (godiv a b))))
`

func usesOpaqueArith(q string) bool {
	body := strings.Replace(q, opaqueArithDecls, "", 1)
	return strings.Contains(body, "(gomul ") || strings.Contains(body, "(godiv ") || strings.Contains(body, "(gomod ")
}

func revealArith(q string) string { return strings.Replace(q, opaqueArithDecls, definedArith, 1) }

// relDomain: the domain each relation is stated under.
var relDomain = map[string]Domain{
	"eval=LR": {}, "U-if-value": {AllBound: true}, "U-if-AllOK": {AllBound: true}, "LR-if-value": {AllBound: true},
	"trace": {AllBound: true}, "trace.try": {AllBound: true, AllAvail: true}, "try-sound": {}, "try=eval": {AllAvail: true}, "try-mono": {}, "try-K": {NoNil: true},
	"eval-twice": {}, "err-reached": {AllBound: true}, "eval=LR.bound": {AllBound: true},
	"ev=noev": {}, "ev=noev.try": {}, "ev-events": {}, "redump": {AllBound: true}, "boundary": {AllBound: true},
}

func assumptionsFor(rels []string) []string {
	base := (&Domain{}).Describe()
	out := append([]string{}, base...)
	extra := map[string][]string{}
	var order []string
	for _, r := range rels {
		d, ok := relDomain[r]
		if !ok {
			continue
		}
		for _, line := range d.Describe()[len(base):] {
			if _, seen := extra[line]; !seen {
				order = append(order, line)
			}
			extra[line] = append(extra[line], r)
		}
	}
	for _, line := range order {
		out = append(out, line+" [relations: "+strings.Join(extra[line], ", ")+"]")
	}
	out = append(out, "bounded tier: only the enumerated programs (bound in coverage.bounded) are covered; the Go interpreter of the SSA, the operator terms and the reference generators are trusted")
	return out
}
