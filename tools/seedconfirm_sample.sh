#!/bin/sh
# confirmation against /repo itself (apply, check, undo) for the round-3 first-pass misses and all of round 4
cd /verif || exit 2
[ -z "$(git -C /repo status --porcelain)" ] || { echo "/repo is not clean"; exit 2; }
out=seeded/RESULTS-round3-4-against-repo.tsv
printf 'seed\tproperty\texit\tviolation_lines\tfirst_failed_obligation\n' > $out
for n in C01-f C02-e C05-f C10-f C12-e C14-e C14-f C15-f C01-g C01-h C02-g C03-g C03-h C06-g C06-h C08-g C10-g C13-g C16-g C16-h; do
  d=seeded/$n; p=$(jq -r .property $d/meta.json)
  if ! git -C /repo apply "$PWD/$d/patch.diff"; then printf '%s\t%s\tpatch-does-not-apply\t0\t\n' $n $p >> $out; continue; fi
  o=$(./check $p 2>&1); rc=$?
  git -C /repo checkout -- .
  nv=$(echo "$o" | grep -c '^VIOLATION')
  ff=$(echo "$o" | grep '^FAILED-OBLIGATION' | head -1 | cut -c1-200 | tr '\t' ' ')
  printf '%s\t%s\t%s\t%s\t%s\n' $n $p $rc $nv "$ff" >> $out
  echo "$n $p exit=$rc violations=$nv"
done
[ -z "$(git -C /repo status --porcelain)" ] || echo "WARNING: /repo not clean after the run"
