package bounded

// Direct SMT terms of the built-in operators ("direct terms").
//
// This file is the ONLY place where the meaning of a built-in operator is
// written down for the bounded tier.  Each function returns, for a list of
// argument terms of sort Val, the value term (sort Val) and the error term
// (sort Err) of one application.  The value term is only meaningful where the
// error term is ENil.  Errors of built-ins are opaque identities that are a
// function of the operator family and the argument vector:
// (EErr (berr_<family>_<arity> a0 .. an-1)).
//
// The proof tier proves, per operator and arity, the bridge lemma
// "proved contract of the Go function => direct term"; OpTermsSMT exports the
// terms over argument constants a0..a{n-1} for that purpose.

import (
	"fmt"
	"strings"
)

// BuiltinFamilies maps every built-in operator name of the alphabet to the
// function that builds its direct term.
var builtinTerms = map[string]func(name string, a []*T) (*T, *T){}

func init() {
	for _, n := range []string{"+", "-", "*", "/", "%", "add", "sub", "mul", "div", "mod"} {
		builtinTerms[n] = opArith
	}
	for _, n := range []string{"and", "or", "xor", "&", "|", "&&", "||"} {
		builtinTerms[n] = opLogic
	}
	for _, n := range []string{"not", "!"} {
		builtinTerms[n] = opNot
	}
	for _, n := range []string{"eq", "=", "=="} {
		builtinTerms[n] = opEquals
	}
	for _, n := range []string{"ne", "!="} {
		builtinTerms[n] = opNotEquals
	}
	for _, n := range []string{"gt", "lt", "ge", "le", ">", "<", ">=", "<="} {
		builtinTerms[n] = opCompare
	}
	builtinTerms["between"] = opBetween
	builtinTerms["in"] = opIn
}

// IsBuiltinTerm reports whether the bounded tier has a direct term for name.
func IsBuiltinTerm(name string) bool { _, ok := builtinTerms[name]; return ok }

// OpTerm returns the direct (value, error) terms of built-in `name` applied to a.
func OpTerm(name string, a []*T) (val, err *T) {
	f := builtinTerms[name]
	if f == nil {
		panic("bounded: no direct term for operator " + name)
	}
	return f(name, a)
}

// Families of built-in failures. The error a built-in operator returns is
// modelled by WHICH operator failed -- (EBuiltin <family code>) -- not by its
// message or its arguments: that is exactly what a replay can observe of a
// real error value (the message names the operator), so that the SMT relation
// is never finer than the replay oracle.
var BuiltinFamilies = []string{"add", "sub", "mul", "div", "mod", "and", "or", "xor", "not", "eq", "ne", "gt", "lt", "ge", "le", "between", "in", "if", "g", "ext"}

// FamilyOf maps an operator name (any alias) to its failure family (the mode
// name the real error messages carry).
func FamilyOf(name string) string {
	switch name {
	case "+", "add":
		return "add"
	case "-", "sub":
		return "sub"
	case "*", "mul":
		return "mul"
	case "/", "div":
		return "div"
	case "%", "mod":
		return "mod"
	case "and", "&", "&&":
		return "and"
	case "or", "|", "||":
		return "or"
	case "not", "!":
		return "not"
	case "eq", "=", "==":
		return "eq"
	case "ne", "!=":
		return "ne"
	case ">", "gt":
		return "gt"
	case "<", "lt":
		return "lt"
	case ">=", "ge":
		return "ge"
	case "<=", "le":
		return "le"
	}
	return name
}

func FamilyCode(fam string) int64 {
	for i, f := range BuiltinFamilies {
		if f == fam {
			return int64(i + 1)
		}
	}
	return int64(len(BuiltinFamilies))
}

func berr(name string, a []*T) *T {
	return EBuiltin(Int(FamilyCode(FamilyOf(name))))
}

func allAre(ctor string, a []*T) *T {
	var cs []*T
	for _, x := range a {
		cs = append(cs, Is(ctor, x))
	}
	return And(cs...)
}

func canonArith(name string) string {
	switch name {
	case "add":
		return "+"
	case "sub":
		return "-"
	case "mul":
		return "*"
	case "div":
		return "/"
	case "mod":
		return "%"
	}
	return name
}

// arithmetic.execute: left fold with int64 wrap-around; fails when fewer than
// two operands, a non-int64 operand, or (div, mod) a zero operand at index >= 1.
func opArith(name string, a []*T) (*T, *T) {
	op := canonArith(name)
	if len(a) < 2 {
		return VNil, berr(name, a)
	}
	ok := []*T{allAre("VInt", a)}
	acc := IVal(a[0])
	for _, x := range a[1:] {
		acc = Arith(op, acc, IVal(x))
		if op == "/" || op == "%" {
			ok = append(ok, Not(Eq(IVal(x), Int(0))))
		}
	}
	return VInt(acc), Ite(And(ok...), ENil, berr(name, a))
}

// logic.execute: fold of and / or / xor over booleans; fails when fewer than two
// operands or a non-bool operand.
func opLogic(name string, a []*T) (*T, *T) {
	if len(a) < 2 {
		return VNil, berr(name, a)
	}
	acc := BVal(a[0])
	for _, x := range a[1:] {
		switch name {
		case "and", "&", "&&":
			acc = And(acc, BVal(x))
		case "or", "|", "||":
			acc = Or(acc, BVal(x))
		default:
			acc = Xor(acc, BVal(x))
		}
	}
	return VBool(acc), Ite(allAre("VBool", a), ENil, berr(name, a))
}

// logicNot: exactly one boolean operand.
func opNot(name string, a []*T) (*T, *T) {
	if len(a) != 1 {
		return VNil, berr(name, a)
	}
	return VBool(Not(BVal(a[0]))), Ite(Is("VBool", a[0]), ENil, berr(name, a))
}

// comparisonEquals: interface equality of all operands with the first; fails
// only when fewer than two operands.  (Operands of an uncomparable dynamic type
// -- lists -- make the Go function panic: outside the domain, finding F4.)
func opEquals(name string, a []*T) (*T, *T) {
	if len(a) < 2 {
		return VNil, berr(name, a)
	}
	var cs []*T
	for _, x := range a[1:] {
		cs = append(cs, Eq(a[0], x))
	}
	return VBool(And(cs...)), ENil
}

// comparisonNotEquals: exactly two operands.
func opNotEquals(name string, a []*T) (*T, *T) {
	if len(a) != 2 {
		return VNil, berr(name, a)
	}
	return VBool(Not(Eq(a[0], a[1]))), ENil
}

// comparison.execute: exactly two int64 operands.
func opCompare(name string, a []*T) (*T, *T) {
	if len(a) != 2 {
		return VNil, berr(name, a)
	}
	op := name
	switch name {
	case "gt":
		op = ">"
	case "lt":
		op = "<"
	case "ge":
		op = ">="
	case "le":
		op = "<="
	}
	return VBool(Cmp(op, IVal(a[0]), IVal(a[1]))), Ite(allAre("VInt", a), ENil, berr(name, a))
}

// comparisonBetween: (between v a b) = a <= v && v <= b over three int64.
func opBetween(name string, a []*T) (*T, *T) {
	if len(a) != 3 {
		return VNil, berr(name, a)
	}
	v, lo, hi := IVal(a[0]), IVal(a[1]), IVal(a[2])
	return VBool(And(Cmp("<=", lo, v), Cmp("<=", v, hi))), Ite(allAre("VInt", a), ENil, berr(name, a))
}

// listIn: (in x list): string in []string, int64 in []int64, int64 in the empty
// (string) list literal is false; everything else is an error.
func opIn(name string, a []*T) (*T, *T) {
	if len(a) != 2 {
		return VNil, berr(name, a)
	}
	x, l := a[0], a[1]
	memS := memTerm("memS", Sel("sval", x), Sel("slid", l))
	memI := memTerm("memI", Sel("ival", x), Sel("ilid", l))
	emp := memTerm("emptyL", nil, Sel("slid", l))
	val := VBool(Ite(Is("VStr", x), memS, Ite(Is("VIntList", l), memI, False)))
	ok := Or(And(Is("VStr", x), Is("VStrList", l)),
		And(Is("VInt", x), Or(Is("VIntList", l), And(Is("VStrList", l), emp))))
	return val, Ite(ok, ENil, berr(name, a))
}

// memTerm builds memI / memS / emptyL, evaluated when the list (and element) are literals.
func memTerm(fn string, x, l *T) *T {
	if l.isLit() {
		id := l.Lit.Int64()
		switch fn {
		case "emptyL":
			if sl, ok := StrListOf(id); ok {
				return BoolT(len(sl) == 0)
			}
		case "memI":
			if il, ok := IntListOf(id); ok {
				var cs []*T
				for _, e := range il {
					cs = append(cs, Eq(x, Int(e)))
				}
				return Or(cs...)
			}
		case "memS":
			if sl, ok := StrListOf(id); ok {
				var cs []*T
				for _, e := range sl {
					cs = append(cs, Eq(x, Int(StrID(e))))
				}
				return Or(cs...)
			}
		}
	}
	if fn == "emptyL" {
		return App(fn, SBool, l)
	}
	return App(fn, SBool, x, l)
}

// GTerm is the fixed meaning of the custom operator `g` that the driver
// registers AND declares in Config.StatelessOperators (so Compile may fold it):
// one int64 operand x, fails on 0 or a non-int64, value x > 0.
func GTerm(a []*T) (*T, *T) {
	if len(a) != 1 {
		return VNil, berr("g", a)
	}
	return VBool(Cmp(">", IVal(a[0]), Int(0))),
		Ite(And(Is("VInt", a[0]), Not(Eq(IVal(a[0]), Int(0)))), ENil, berr("g", a))
}

// IfTerm is the reference meaning of the `if` node's condition check: a
// non-boolean condition is an error.
func IfCondErr(c *T) *T {
	return Ite(Is("VBool", c), ENil, berr("if", []*T{c}))
}

// OpTermsSMT renders the direct terms of operator `name` at the given arity
// over the argument constants a0..a{n-1} (sort Val): the declarations needed
// (prelude, argument constants, opaque error functions), the value term and
// the error term.
func OpTermsSMT(name string, arity int) (decls, val, err string) {
	var a []*T
	for i := 0; i < arity; i++ {
		a = append(a, Sym(fmt.Sprintf("a%d", i), SVal))
	}
	var v, e *T
	if name == "g" {
		v, e = GTerm(a)
	} else {
		v, e = OpTerm(name, a)
	}
	d := NewDecls()
	d.Add(a...)
	d.Add(v, e)
	var sb strings.Builder
	sb.WriteString(PreludeSMT)
	sb.WriteString(ArithDefsSMT)
	sb.WriteString(ListDefs(v, e))
	sb.WriteString(d.Text())
	return sb.String(), v.String(), e.String()
}
