package main

import (
	"encoding/json"
	"fmt"
	"os"
	"sort"
	"strings"
	"time"

	"govc/internal/core"
	"govc/internal/load"
)

// Engine runs one kind of obligation generator for a property; sel is the
// engine-specific selection from claims/<ID>.json.
type Engine func(env *core.Env, p *load.Program, prop string, sel json.RawMessage) (*core.Result, error)

var engines = map[string]Engine{}

// replayers turn a refuted obligation's model into a run of the real code.
var replayers = map[string]func(env *core.Env, p *load.Program, prop string, o *core.Obl){}

func cmdCheck(args []string) int {
	if len(args) < 1 {
		usage()
	}
	prop := args[0]
	list := false
	env := core.EnvFromOS(prop)
	env.SetTier(env.Tier)
	for i := 1; i < len(args); i++ {
		switch args[i] {
		case "--tier":
			if i+1 < len(args) {
				env.SetTier(args[i+1])
				i++
			}
		case "-v":
			env.Verbose = true
		case "-l":
			list = true
		}
	}
	t0 := time.Now()
	cf, err := core.LoadClaims(env.Verif, prop)
	if err != nil {
		fmt.Fprintln(os.Stderr, "govc: no claims for", prop, ":", err)
		return 2
	}
	env.Claimed = cf.IsClaimed
	os.RemoveAll(env.Work)
	os.MkdirAll(env.Work, 0o755)
	defer os.RemoveAll(env.Work)
	os.RemoveAll(env.Out + "/replays/" + prop)

	p, err := load.Load(env.Repo)
	if err != nil {
		// the tree does not build: this is not a property violation, it is an unusable input
		fmt.Fprintln(os.Stderr, "govc: cannot load /repo:", err)
		return 2
	}
	res := &core.Result{Extra: map[string]interface{}{}}
	var names []string
	for n := range cf.Engines {
		names = append(names, n)
	}
	sort.Strings(names)
	for _, n := range names {
		e := engines[n]
		if e == nil {
			fmt.Fprintln(os.Stderr, "govc: unknown engine", n)
			return 2
		}
		r, err := e(env, p, prop, cf.Engines[n])
		if err != nil {
			fmt.Fprintf(os.Stderr, "govc: engine %s: %v\n", n, err)
			return 2
		}
		res.Merge(r)
	}
	res.Extra["source_sha256"] = p.Hashes
	replay := func(o *core.Obl) {
		if r := replayers[o.ReplayKind]; r != nil {
			r(env, p, prop, o)
		}
	}
	if list {
		for _, o := range res.Obls {
			fmt.Printf("  %-11s %-8s %s\n", o.Status, o.Tier, o.Name)
		}
	}
	v := core.Decide(env, cf, res, replay)
	cmd := "cd /verif && ./check " + prop + " --tier " + env.Tier
	if err := core.WriteEvidence(env, cf, res, v, time.Since(t0), cmd); err != nil {
		fmt.Fprintln(os.Stderr, "govc: evidence:", err)
		return 2
	}
	nd := 0
	for _, o := range v.Claimed {
		if o.Status == core.Discharged {
			nd++
		}
	}
	fmt.Printf("property %s tier %s: %d obligations generated, %d claimed, %d of the claimed discharged, %d unclaimed; %.1fs\n",
		prop, env.Tier, len(res.Obls), len(v.Claimed), nd, len(v.Unclaimed), time.Since(t0).Seconds())
	for _, l := range v.Lines {
		fmt.Println(l)
	}
	if v.ExitCode == 0 {
		fmt.Println("OK property=" + prop + " " + strings.TrimSpace(fmt.Sprintf("known-findings=%d", len(v.Known))))
	}
	return v.ExitCode
}
