// Package vc is the proof tier of govc: it generates verification conditions
// from the go/ssa form of the functions under contract (passive encoding,
// loops cut by invariants, calls replaced by contracts, Go run-time checks as
// safety obligations) and hands them to the SMT portfolio.
package vc

import (
	"fmt"
	"go/types"
	"regexp"
	"sort"
	"strings"

	"golang.org/x/tools/go/ssa"
)

// Universe collects what is global to one run: the constructors of the Val
// datatype (one per dynamic type that is ever put into or asserted out of an
// interface in the package), the struct datatypes, string literal ids.
type Universe struct {
	valCtors   map[string]*valCtor // by type key
	ctorOrder  []string
	structs    map[string]*structDT
	structOrd  []string
	strIDs     map[string]int
	strOrder   []string
	globals    map[*ssa.Global]int
	funcIDs    map[*ssa.Function]int
	extraDecls []string
	mutual     map[string]bool   // struct sorts declared in the same datatype block as Val
	oracleFuns map[string]string // name -> signature, declared in the prelude
	oracleOrd  []string
}

func (u *Universe) addOracle(name, sig string) {
	if u.oracleFuns == nil {
		u.oracleFuns = map[string]string{}
	}
	if _, ok := u.oracleFuns[name]; !ok {
		u.oracleFuns[name] = sig
		u.oracleOrd = append(u.oracleOrd, name)
	}
}

type valCtor struct {
	key     string // sanitized type name
	typ     types.Type
	payload string // SMT sort of the payload
	opaque  bool   // payload is an opaque Int id
}

type structDT struct {
	name   string
	typ    *types.Struct
	fields []string // SMT sorts
	fnames []string
}

var nonIdent = regexp.MustCompile(`[^A-Za-z0-9_]+`)

func typeKey(t types.Type) string {
	s := types.TypeString(t, func(p *types.Package) string { return "" })
	s = strings.ReplaceAll(s, "[]", "slice_")
	s = strings.ReplaceAll(s, "*", "ptr_")
	s = strings.ReplaceAll(s, "interface{}", "iface")
	s = nonIdent.ReplaceAllString(s, "_")
	s = strings.Trim(s, "_")
	if len(s) > 48 {
		s = s[:48]
	}
	return s
}

func NewUniverse() *Universe {
	return &Universe{valCtors: map[string]*valCtor{}, structs: map[string]*structDT{}, strIDs: map[string]int{},
		globals: map[*ssa.Global]int{}, funcIDs: map[*ssa.Function]int{}}
}

func isErrorType(t types.Type) bool {
	return t.String() == "error"
}

func isInterface(t types.Type) bool {
	_, ok := t.Underlying().(*types.Interface)
	return ok
}

// sortOf gives the SMT sort of a Go type ("" = not representable).
func (u *Universe) sortOf(t types.Type) string {
	switch x := t.Underlying().(type) {
	case *types.Basic:
		switch {
		case x.Info()&types.IsBoolean != 0:
			return "Bool"
		case x.Info()&types.IsInteger != 0:
			return "Int"
		case x.Info()&types.IsString != 0:
			return "Int" // string ids
		case x.Info()&types.IsFloat != 0:
			return "Real"
		case x.Kind() == types.UnsafePointer:
			return "Int"
		case x.Kind() == types.UntypedNil:
			return "Int"
		}
	case *types.Interface:
		if isErrorType(t) {
			return "Err"
		}
		// every non-error interface is a Val: the dynamic type and payload stay visible
		return "Val"
	case *types.Pointer, *types.Map, *types.Chan, *types.Signature:
		return "Int"
	case *types.Slice:
		return "Slice"
	case *types.Struct:
		return u.structSort(t)
	case *types.Array:
		// array values (range over an array, array-typed locals): SMT arrays of scalar leaves
		if _, isStruct := x.Elem().Underlying().(*types.Struct); isStruct {
			return ""
		}
		es := u.sortOf(x.Elem())
		if es == "" || strings.HasPrefix(es, "(Array") {
			return ""
		}
		return "(Array Int " + es + ")"
	case *types.Tuple:
		return ""
	}
	return ""
}

// containsIface reports whether a struct type (transitively, by value) holds Val/Err-sorted fields.
func (u *Universe) structContainsVal(st *types.Struct, depth int) bool {
	if depth > 6 {
		return true
	}
	for i := 0; i < st.NumFields(); i++ {
		ft := st.Field(i).Type()
		switch x := ft.Underlying().(type) {
		case *types.Interface:
			return true
		case *types.Struct:
			if u.structContainsVal(x, depth+1) {
				return true
			}
		case *types.Array:
			return true
		}
	}
	return false
}

// flatValStruct: a struct with interface fields whose every field is of a plain representable sort
// (no nested struct with interfaces, no arrays): it can be declared together with Val.
func (u *Universe) flatValStruct(st *types.Struct) bool {
	for i := 0; i < st.NumFields(); i++ {
		ft := st.Field(i).Type()
		switch x := ft.Underlying().(type) {
		case *types.Struct:
			if u.structContainsVal(x, 0) {
				return false
			}
		case *types.Array, *types.Tuple:
			return false
		}
		if u.sortOf(ft) == "" {
			return false
		}
	}
	return true
}

func (u *Universe) structSort(t types.Type) string {
	st := t.Underlying().(*types.Struct)
	key := "S_" + typeKey(t)
	if _, ok := u.structs[key]; ok {
		return key
	}
	d := &structDT{name: key, typ: st}
	u.structs[key] = d // break cycles (no by-value cycles in Go anyway)
	for i := 0; i < st.NumFields(); i++ {
		fs := u.sortOf(st.Field(i).Type())
		if fs == "" {
			fs = "Int"
		}
		d.fields = append(d.fields, fs)
		d.fnames = append(d.fnames, fmt.Sprintf("%s_%s", key, sanitizeField(st.Field(i).Name(), i)))
	}
	u.structOrd = append(u.structOrd, key)
	return key
}

func sanitizeField(n string, i int) string {
	if n == "" || n == "_" {
		return fmt.Sprintf("f%d", i)
	}
	return n
}

func (u *Universe) structInfo(t types.Type) *structDT {
	k := u.structSort(t)
	return u.structs[k]
}

// valCtorFor returns the Val constructor for dynamic type t, registering it.
func (u *Universe) valCtorFor(t types.Type) *valCtor {
	key := typeKey(t)
	if c, ok := u.valCtors[key]; ok {
		return c
	}
	c := &valCtor{key: key, typ: t}
	ps := u.sortOf(t)
	switch x := t.Underlying().(type) {
	case *types.Struct:
		if u.structContainsVal(x, 0) {
			if u.flatValStruct(x) {
				// declared together with Val (mutually recursive datatypes): fields stay visible
				ps = u.structSort(t)
				if u.mutual == nil {
					u.mutual = map[string]bool{}
				}
				u.mutual[ps] = true
			} else {
				ps = ""
			}
		}
	case *types.Interface:
		ps = ""
	}
	if ps == "" || ps == "Val" || ps == "Err" {
		c.opaque = true
		ps = "Int"
	}
	c.payload = ps
	u.valCtors[key] = c
	u.ctorOrder = append(u.ctorOrder, key)
	return c
}

func (u *Universe) strID(s string) int {
	if id, ok := u.strIDs[s]; ok {
		return id
	}
	id := len(u.strIDs) + 1
	u.strIDs[s] = id
	u.strOrder = append(u.strOrder, s)
	return id
}

// StrLit gives the SMT numeral of a string literal.
func (u *Universe) StrLit(s string) string { return fmt.Sprint(u.strID(s)) }

func (u *Universe) globalAddr(g *ssa.Global) string {
	id, ok := u.globals[g]
	if !ok {
		id = len(u.globals) + 1
		u.globals[g] = id
	}
	return fmt.Sprintf("(- %d)", id)
}

func (u *Universe) funcID(f *ssa.Function) string {
	id, ok := u.funcIDs[f]
	if !ok {
		id = len(u.funcIDs) + 1
		u.funcIDs[f] = id
	}
	return fmt.Sprintf("(- %d)", 1000000+id)
}

// Prescan registers every type that flows through an interface anywhere in the package,
// so that the Val datatype is the same for every function of the run.
func (u *Universe) Prescan(fns []*ssa.Function) {
	for _, fn := range fns {
		for _, b := range fn.Blocks {
			for _, ins := range b.Instrs {
				switch x := ins.(type) {
				case *ssa.MakeInterface:
					if !isErrorType(x.Type()) {
						u.valCtorFor(x.X.Type())
					}
				case *ssa.TypeAssert:
					if !isInterface(x.AssertedType) {
						u.valCtorFor(x.AssertedType)
					}
				case *ssa.Call:
					// oracle functions of interface method calls
					com := x.Common()
					if com.IsInvoke() {
						var sorts []string
						sorts = append(sorts, u.sortOf(com.Value.Type()))
						ok := sorts[0] != ""
						for _, a := range com.Args {
							as := u.sortOf(a.Type())
							if as == "" {
								ok = false
							}
							sorts = append(sorts, as)
						}
						if ok {
							sig := com.Signature()
							for i := 0; i < sig.Results().Len(); i++ {
								if rs := u.sortOf(sig.Results().At(i).Type()); rs != "" {
									u.addOracle(fmt.Sprintf("inv_%s_%d", com.Method.Name(), i), "("+strings.Join(sorts, " ")+") "+rs)
								}
							}
						}
					}
				}
				// string constants
				for _, op := range ins.Operands(nil) {
					if op == nil || *op == nil {
						continue
					}
					if c, ok := (*op).(*ssa.Const); ok && c.Value != nil {
						if b, ok := c.Type().Underlying().(*types.Basic); ok && b.Info()&types.IsString != 0 {
							u.strID(constString(c))
						}
					}
				}
			}
		}
	}
}

func intRange(t types.Type) (lo, hi string, ok bool) {
	b, isB := t.Underlying().(*types.Basic)
	if !isB || b.Info()&types.IsInteger == 0 {
		return "", "", false
	}
	switch b.Kind() {
	case types.Int8:
		return "(- 128)", "127", true
	case types.Int16:
		return "(- 32768)", "32767", true
	case types.Int32:
		return "(- 2147483648)", "2147483647", true
	case types.Int, types.Int64:
		return "(- 9223372036854775808)", "9223372036854775807", true
	case types.Uint8:
		return "0", "255", true
	case types.Uint16:
		return "0", "65535", true
	case types.Uint32:
		return "0", "4294967295", true
	case types.Uint, types.Uint64, types.Uintptr:
		return "0", "18446744073709551615", true
	}
	return "", "", false
}

func intBits(t types.Type) (bits int, signed bool) {
	b, isB := t.Underlying().(*types.Basic)
	if !isB {
		return 0, false
	}
	switch b.Kind() {
	case types.Int8:
		return 8, true
	case types.Int16:
		return 16, true
	case types.Int32:
		return 32, true
	case types.Int, types.Int64:
		return 64, true
	case types.Uint8:
		return 8, false
	case types.Uint16:
		return 16, false
	case types.Uint32:
		return 32, false
	case types.Uint, types.Uint64, types.Uintptr:
		return 64, false
	}
	return 0, false
}

func pow2(n int) string {
	// exact decimal of 2^n for n <= 64
	v := [2]uint64{1, 0} // lo, hi (hi unused unless n == 64)
	if n < 64 {
		return fmt.Sprint(uint64(1) << uint(n))
	}
	_ = v
	return "18446744073709551616"
}

// wrapTerm wraps a mathematical integer into the range of t.
func wrapTerm(t types.Type, e string) string {
	bits, signed := intBits(t)
	if bits == 0 {
		return e
	}
	if signed {
		return fmt.Sprintf("(wrapS%d %s)", bits, e)
	}
	return fmt.Sprintf("(wrapU%d %s)", bits, e)
}

// Prelude renders the declarations shared by all queries of the run.
func (u *Universe) Prelude() string {
	var sb strings.Builder
	sb.WriteString("; ---- prelude (generated) ----\n")
	sb.WriteString("(declare-datatypes ((Slice 0)) (((mk_slice (s_arr Int) (s_off Int) (s_len Int) (s_cap Int)))))\n")
	sb.WriteString("(declare-datatypes ((Err 0)) (((ENil) (EErr (eid Int)))))\n")
	// struct datatypes without Val fields first (those can be Val payloads); others after Val
	var before, after []string
	for _, k := range u.structOrd {
		d := u.structs[k]
		if u.structContainsVal(d.typ, 0) {
			after = append(after, k)
		} else {
			before = append(before, k)
		}
	}
	emit := func(k string) {
		d := u.structs[k]
		sb.WriteString(fmt.Sprintf("(declare-datatypes ((%s 0)) (((mk_%s", k, k))
		for i, f := range d.fields {
			sb.WriteString(fmt.Sprintf(" (%s %s)", d.fnames[i], f))
		}
		sb.WriteString("))))\n")
	}
	// dependencies among "before" structs: emit in registration order but inner ones first
	emitted := map[string]bool{}
	var emitDeps func(k string)
	emitDeps = func(k string) {
		if emitted[k] {
			return
		}
		emitted[k] = true
		d := u.structs[k]
		for _, f := range d.fields {
			if _, ok := u.structs[f]; ok {
				emitDeps(f)
			}
		}
		emit(k)
	}
	for _, k := range before {
		emitDeps(k)
	}
	var mut []string
	for _, k := range after {
		if u.mutual[k] {
			mut = append(mut, k)
		}
	}
	sb.WriteString("(declare-datatypes ((Val 0)")
	for _, k := range mut {
		sb.WriteString(" (" + k + " 0)")
		emitted[k] = true
	}
	sb.WriteString(") (((VNil)")
	keys := append([]string{}, u.ctorOrder...)
	sort.Strings(keys)
	for _, k := range keys {
		c := u.valCtors[k]
		sb.WriteString(fmt.Sprintf(" (V_%s (p_%s %s))", c.key, c.key, c.payload))
	}
	sb.WriteString(" (VOther (o_tag Int) (o_id Int)))")
	for _, k := range mut {
		d := u.structs[k]
		sb.WriteString(fmt.Sprintf(" ((mk_%s", k))
		for i, f := range d.fields {
			sb.WriteString(fmt.Sprintf(" (%s %s)", d.fnames[i], f))
		}
		sb.WriteString("))")
	}
	sb.WriteString("))\n")
	for _, k := range after {
		emitDeps(k)
	}
	for _, k := range keys {
		c := u.valCtors[k]
		sb.WriteString(fmt.Sprintf("(define-fun is.%s ((v Val)) Bool ((_ is V_%s) v))\n", c.key, c.key))
	}
	// well-formedness of interface payloads, and comparability (== on two values of the same
	// uncomparable dynamic type panics)
	sb.WriteString("(define-fun inS64 ((x Int)) Bool (and (<= (- 9223372036854775808) x) (<= x 9223372036854775807)))\n")
	sb.WriteString("(define-fun wfslice ((s Slice)) Bool (and (<= 0 (s_off s)) (<= 0 (s_len s)) (<= (s_len s) (s_cap s)) (<= (+ (s_off s) (s_cap s)) 1152921504606846975) (>= (s_arr s) 0) (=> (= (s_arr s) 0) (= (s_cap s) 0))))\n")
	var wf, unc []string
	for _, k := range keys {
		c := u.valCtors[k]
		sel := "(p_" + c.key + " v)"
		if !c.opaque {
			if lo, hi, ok := intRange(c.typ); ok {
				wf = append(wf, fmt.Sprintf("(=> (is.%s v) (and (<= %s %s) (<= %s %s)))", c.key, lo, sel, sel, hi))
			}
			switch c.typ.Underlying().(type) {
			case *types.Slice:
				wf = append(wf, fmt.Sprintf("(=> (is.%s v) (and (wfslice %s) (< (s_arr %s) nx)))", c.key, sel, sel))
			case *types.Pointer, *types.Map, *types.Chan:
				wf = append(wf, fmt.Sprintf("(=> (is.%s v) (and (<= 0 %s) (< %s nx)))", c.key, sel, sel))
			}
		}
		switch c.typ.Underlying().(type) {
		case *types.Slice, *types.Map, *types.Signature:
			unc = append(unc, fmt.Sprintf("(and (is.%s a) (is.%s b))", c.key, c.key))
		}
	}
	sb.WriteString("(define-fun wfval ((v Val) (nx Int)) Bool (and true " + strings.Join(wf, " ") + "))\n")
	sb.WriteString("(define-fun comparableVals ((a Val) (b Val)) Bool (not (or false " + strings.Join(unc, " ") + ")))\n")
	for _, bits := range []int{8, 16, 32, 64} {
		m := pow2(bits)
		h := pow2(bits - 1)
		sb.WriteString(fmt.Sprintf("(define-fun wrapS%d ((x Int)) Int (ite (and (<= (- %s) x) (< x %s)) x (- (mod (+ x %s) %s) %s)))\n", bits, h, h, h, m, h))
		sb.WriteString(fmt.Sprintf("(define-fun wrapU%d ((x Int)) Int (ite (and (<= 0 x) (< x %s)) x (mod x %s)))\n", bits, m, m))
	}
	sb.WriteString(`(define-fun nilslice () Slice (mk_slice 0 0 0 0))
; Go's truncated division and remainder, opaque by default (DESIGN 6.6); revealed by the lemmas that need them
(declare-fun mul64 (Int Int) Int)
(declare-fun div64 (Int Int) Int)
(declare-fun rem64 (Int Int) Int)
(define-fun tdiv ((a Int) (b Int)) Int (ite (= b 0) 0 (ite (>= a 0) (ite (> b 0) (div a b) (- (div a (- b)))) (ite (> b 0) (- (div (- a) b)) (div (- a) (- b))))))
(define-fun trem ((a Int) (b Int)) Int (- a (* b (tdiv a b))))
(define-fun bit ((x Int) (i Int)) Bool (= (mod (div x i) 2) 1))
(define-fun band8 ((a Int) (b Int)) Int (+ (ite (and (bit a 1) (bit b 1)) 1 0) (ite (and (bit a 2) (bit b 2)) 2 0) (ite (and (bit a 4) (bit b 4)) 4 0) (ite (and (bit a 8) (bit b 8)) 8 0) (ite (and (bit a 16) (bit b 16)) 16 0) (ite (and (bit a 32) (bit b 32)) 32 0) (ite (and (bit a 64) (bit b 64)) 64 0) (ite (and (bit a 128) (bit b 128)) 128 0)))
(define-fun bor8 ((a Int) (b Int)) Int (- (+ a b) (band8 a b)))
(define-fun bxor8 ((a Int) (b Int)) Int (- (+ a b) (* 2 (band8 a b))))
; strings are Int ids; literals are small positive numerals
(declare-fun strlen (Int) Int)
(declare-fun strcat (Int Int) Int)
(declare-fun strlt (Int Int) Bool)
(declare-fun strat (Int Int) Int)
(declare-fun strsub (Int Int Int) Int)
(assert (forall ((s Int)) (! (and (>= (strlen s) 0) (<= (strlen s) 1152921504606846975)) :pattern ((strlen s)))))
; uninterpreted functions of the standard-library stub contracts (DESIGN 2.2)
`)
	for _, d := range StubFuns {
		sb.WriteString("(declare-fun " + d[0] + " " + d[1] + ")\n")
	}
	// oracles: interface method calls and calls through function values (DESIGN 2.2)
	for _, n := range u.oracleOrd {
		sb.WriteString("(declare-fun " + n + " " + u.oracleFuns[n] + ")\n")
	}
	for i := 0; i < 3; i++ {
		for _, srt := range []string{"Val", "Err", "Int", "Bool", "Slice", "Real"} {
			sb.WriteString(fmt.Sprintf("(declare-fun dynres_%d_%s (Int Int) %s)\n", i, srt, srt))
		}
	}
	sb.WriteString("(declare-fun cloFn (Int) Int)\n")
	sb.WriteString("(define-fun uncmp ((v Val)) Bool (not (comparableVals v v)))\n")
	if _, ok := u.structs["S_Time"]; ok {
		sb.WriteString("(declare-fun timeUnix (S_Time) Int)\n")
	}
	for _, s := range u.strOrder {
		sb.WriteString(fmt.Sprintf("(assert (= (strlen %d) %d)) ; %q\n", u.strIDs[s], len(s), trunc(s, 40)))
	}
	for _, d := range u.extraDecls {
		sb.WriteString(d + "\n")
	}
	sb.WriteString("; ---- end prelude ----\n")
	return sb.String()
}

// StubFuns: the uninterpreted vocabulary of the stdlib stubs, declared in every prelude so that
// ghost definitions and lemmas of the contract file may mention them.
var StubFuns = [][2]string{
	{"parseIntVal", "(Int) Int"}, {"parseIntOk", "(Int) Bool"}, {"parseBoolVal", "(Int) Bool"}, {"parseBoolOk", "(Int) Bool"},
	{"itoa", "(Int) Int"}, {"quote", "(Int) Int"}, {"splitLen", "(Int Int) Int"}, {"splitArr", "(Int Int) (Array Int Int)"},
	{"trimSpace", "(Int) Int"}, {"trimPrefix", "(Int Int) Int"}, {"hasPrefix", "(Int Int) Bool"}, {"containsRune", "(Int Int) Bool"},
	{"containsAny", "(Int Int) Bool"}, {"joinStr", "((Array Int Int) Int Int Int) Int"}, {"isSpace", "(Int) Bool"}, {"isLetter", "(Int) Bool"},
	{"isNumber", "(Int) Bool"}, {"parseUnix", "(Int Int) Int"}, {"parseTimeOk", "(Int Int) Bool"}, {"runesOf", "(Int) (Array Int Int)"},
	{"bytesOf", "(Int) (Array Int Int)"}, {"runeLen", "(Int) Int"}, {"strOfArr", "((Array Int Int) Int Int) Int"}, {"strOfRune", "(Int) Int"},
	{"fmul", "(Real Real) Real"}, {"fdiv", "(Real Real) Real"},
}

var stubFunSet = func() map[string]bool {
	m := map[string]bool{}
	for _, d := range StubFuns {
		m[d[0]] = true
	}
	return m
}()

func trunc(s string, n int) string {
	if len(s) > n {
		return s[:n] + "..."
	}
	return s
}
