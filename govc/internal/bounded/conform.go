package bounded

// Conformance of the engine's own model with the real code ("conform"): for a
// few CONCRETE bindings per program the driver runs the real Eval / TryEval;
// the engine evaluates the path conditions of its unrolling under the same
// binding, and the one path whose condition holds must predict exactly the
// real outcome (value, or which error).  With all optimisations off the
// reference term LR(src) is evaluated as well.  This is the guard against an
// error that would be invisible to the SMT relations because it sits on both
// sides of them (a wrong direct operator term, a wrong SSA instruction in the
// interpreter): for concrete inputs the real code is the judge.

import (
	"encoding/json"
	"fmt"
	"hash/fnv"
	"math/big"
	"math/rand"
	"strings"

	"govc/internal/core"
)

// Sample mirrors vSample of the driver.
type Sample struct {
	Vars  map[string]SampleBind `json:"vars"`
	Avail map[string]bool       `json:"avail"`
	Seed  int64                 `json:"seed"`
}

type SampleBind struct {
	V XVal `json:"v"`
	E bool `json:"e"`
}

type Outcome struct {
	V     XVal   `json:"v"`
	E     string `json:"e"`
	Panic string `json:"p"`
}

type SampleRes struct {
	Eval Outcome `json:"eval"`
	Try  Outcome `json:"try"`
}

var sampleNames = []string{"b0", "b1", "b2", "ub", "i0", "i1", "i2", "ui"}

// MakeSamples: n deterministic bindings for a source (function of the text and the run seed).
func MakeSamples(text string, seed int64, n int) []Sample {
	h := fnv.New64a()
	h.Write([]byte(text))
	r := rand.New(rand.NewSource(int64(h.Sum64()>>1) ^ seed*1000003))
	ints := []XVal{{K: "int", I: 0}, {K: "int", I: 1}, {K: "int", I: -1}, {K: "int", I: 2}, {K: "int", I: 3}, {K: "int", I: 7},
		{K: "int", I: 9223372036854775807}, {K: "int", I: -9223372036854775808}, {K: "str", S: "a"}, {K: "str", S: "zz"}, {K: "nil"}, {K: "bool", B: true}}
	var out []Sample
	for k := 0; k < n; k++ {
		s := Sample{Vars: map[string]SampleBind{}, Avail: map[string]bool{}, Seed: 1 + r.Int63n(1<<40)}
		for _, name := range sampleNames {
			var b SampleBind
			if Alpha.IsBoolVar(name) {
				switch r.Intn(7) {
				case 0:
					b.E = true
				default:
					b.V = XVal{K: "bool", B: r.Intn(2) == 0}
				}
			} else {
				if r.Intn(9) == 0 {
					b.E = true
				} else if r.Intn(3) == 0 {
					b.V = ints[r.Intn(len(ints))]
				} else {
					b.V = ints[r.Intn(6)]
				}
			}
			s.Vars[name] = b
			s.Avail[name] = r.Intn(4) != 0
		}
		out = append(out, s)
	}
	return out
}

// ---------------------------------------------------------------- evaluation of terms under a concrete model

type cVal struct {
	Ctor string
	B    bool
	I    *big.Int
}

func (v cVal) String() string {
	switch v.Ctor {
	case "VBool":
		return fmt.Sprintf("(VBool %v)", v.B)
	case "VInt", "VStr", "VIntList", "VStrList", "VObj", "EErr", "EBuiltin":
		return fmt.Sprintf("(%s %s)", v.Ctor, v.I)
	}
	return v.Ctor
}

func (v cVal) equal(w cVal) bool {
	if v.Ctor != w.Ctor || v.B != w.B {
		return false
	}
	if (v.I == nil) != (w.I == nil) {
		return false
	}
	return v.I == nil || v.I.Cmp(w.I) == 0
}

type cModel struct {
	sample *Sample
	defs   *Defs
	memo   map[string]interface{}
}

func xvalToC(v XVal) cVal {
	switch v.K {
	case "bool":
		return cVal{Ctor: "VBool", B: v.B}
	case "int":
		return cVal{Ctor: "VInt", I: big.NewInt(v.I)}
	case "str", "kw":
		return cVal{Ctor: "VStr", I: big.NewInt(StrID(v.S))}
	case "nil":
		return cVal{Ctor: "VNil"}
	case "dne":
		return cVal{Ctor: "VDNE"}
	case "ilist":
		return cVal{Ctor: "VIntList", I: big.NewInt(IntListID(v.IL))}
	case "slist":
		return cVal{Ctor: "VStrList", I: big.NewInt(StrListID(v.SL))}
	}
	return cVal{Ctor: "VObj", I: big.NewInt(StrID(v.K + ":" + v.S))}
}

func fetchErrID(name string) int64 {
	for i, n := range sampleNames {
		if n == name {
			return int64(100 + i)
		}
	}
	return 199
}

func argsRepr(args []cVal) (string, bool) {
	var sb strings.Builder
	for _, a := range args {
		switch a.Ctor {
		case "VNil":
			sb.WriteString("nil;")
		case "VBool":
			fmt.Fprintf(&sb, "b%v;", a.B)
		case "VInt":
			fmt.Fprintf(&sb, "i%s;", a.I)
		case "VStr":
			s, ok := StrOf(a.I.Int64())
			if !ok {
				return "", false
			}
			fmt.Fprintf(&sb, "s%q;", s)
		default:
			return "", false
		}
	}
	return sb.String(), true
}

func sampleHash(seed int64, name, args string) uint32 {
	h := uint32(2166136261)
	for _, c := range []byte(fmt.Sprintf("%d|%s|%s", seed, name, args)) {
		h ^= uint32(c)
		h *= 16777619
	}
	return h
}

// sampleOp is the hash-defined custom operator of the driver (verifSampleOp), term side.
func sampleOp(seed int64, name string, args []cVal) (cVal, cVal, error) {
	rep, ok := argsRepr(args)
	if !ok {
		return cVal{}, cVal{}, fmt.Errorf("custom operator %s applied to a value outside the sample domain", name)
	}
	h := sampleHash(seed, name, rep)
	enil := cVal{Ctor: "ENil"}
	if name == Alpha.CustomBool {
		if h%5 == 0 {
			return cVal{Ctor: "VNil"}, cVal{Ctor: "EErr", I: big.NewInt(2000 + int64(h/5)%3)}, nil
		}
		return cVal{Ctor: "VBool", B: (h/5)%2 == 0}, enil, nil
	}
	switch h % 6 {
	case 0:
		return cVal{Ctor: "VNil"}, cVal{Ctor: "EErr", I: big.NewInt(2000 + int64(h/6)%3)}, nil
	case 1:
		return cVal{Ctor: "VStr", I: big.NewInt(StrID("a"))}, enil, nil
	case 2:
		return cVal{Ctor: "VNil"}, enil, nil
	}
	return cVal{Ctor: "VInt", I: big.NewInt(int64((h/6)%9) - 4)}, enil, nil
}

func (m *cModel) eval(t *T) (interface{}, error) {
	if len(t.Args) > 0 || t.Op == "#int" {
		if v, ok := m.memo[t.String()]; ok {
			return v, nil
		}
	}
	v, err := m.eval1(t)
	if err == nil && len(t.Args) > 0 {
		m.memo[t.String()] = v
	}
	return v, err
}

func (m *cModel) bool(t *T) (bool, error) {
	v, err := m.eval(t)
	if err != nil {
		return false, err
	}
	b, ok := v.(bool)
	if !ok {
		return false, fmt.Errorf("not a boolean: %s", t)
	}
	return b, nil
}

func (m *cModel) int(t *T) (*big.Int, error) {
	v, err := m.eval(t)
	if err != nil {
		return nil, err
	}
	b, ok := v.(*big.Int)
	if !ok {
		return nil, fmt.Errorf("not an integer: %s", t)
	}
	return b, nil
}

func (m *cModel) val(t *T) (cVal, error) {
	v, err := m.eval(t)
	if err != nil {
		return cVal{}, err
	}
	b, ok := v.(cVal)
	if !ok {
		return cVal{}, fmt.Errorf("not a Val/Err: %s", t)
	}
	return b, nil
}

func (m *cModel) eval1(t *T) (interface{}, error) {
	switch t.Op {
	case "true":
		return true, nil
	case "false":
		return false, nil
	case "#int":
		return t.Lit, nil
	case "not":
		b, err := m.bool(t.Args[0])
		return !b, err
	case "and", "or":
		for _, a := range t.Args {
			b, err := m.bool(a)
			if err != nil {
				return nil, err
			}
			if b != (t.Op == "and") {
				return b, nil
			}
		}
		return t.Op == "and", nil
	case "xor":
		a, err := m.bool(t.Args[0])
		if err != nil {
			return nil, err
		}
		b, err := m.bool(t.Args[1])
		return a != b, err
	case "ite":
		c, err := m.bool(t.Args[0])
		if err != nil {
			return nil, err
		}
		if c {
			return m.eval(t.Args[1])
		}
		return m.eval(t.Args[2])
	case "=":
		a, err := m.eval(t.Args[0])
		if err != nil {
			return nil, err
		}
		b, err := m.eval(t.Args[1])
		if err != nil {
			return nil, err
		}
		switch x := a.(type) {
		case bool:
			return x == b.(bool), nil
		case *big.Int:
			return x.Cmp(b.(*big.Int)) == 0, nil
		case cVal:
			return x.equal(b.(cVal)), nil
		}
	case "+", "-", "gomul", "godiv", "gomod", "<", "<=", ">", ">=":
		a, err := m.int(t.Args[0])
		if err != nil {
			return nil, err
		}
		b, err := m.int(t.Args[1])
		if err != nil {
			return nil, err
		}
		switch t.Op {
		case "+":
			return new(big.Int).Add(a, b), nil
		case "-":
			return new(big.Int).Sub(a, b), nil
		case "gomul":
			return new(big.Int).Mul(a, b), nil
		case "godiv":
			if b.Sign() == 0 {
				return big.NewInt(0), nil
			}
			return goDivBig(a, b), nil
		case "gomod":
			if b.Sign() == 0 {
				return new(big.Int).Set(a), nil
			}
			return goRemBig(a, b), nil
		case "<":
			return a.Cmp(b) < 0, nil
		case "<=":
			return a.Cmp(b) <= 0, nil
		case ">":
			return a.Cmp(b) > 0, nil
		default:
			return a.Cmp(b) >= 0, nil
		}
	case "wrap64":
		a, err := m.int(t.Args[0])
		if err != nil {
			return nil, err
		}
		return wrap64big(a), nil
	case "memI", "memS":
		x, err := m.int(t.Args[0])
		if err != nil {
			return nil, err
		}
		l, err := m.int(t.Args[1])
		if err != nil {
			return nil, err
		}
		if t.Op == "memI" {
			il, ok := IntListOf(l.Int64())
			if !ok {
				return nil, fmt.Errorf("unknown int list %s", l)
			}
			for _, e := range il {
				if x.Cmp(big.NewInt(e)) == 0 {
					return true, nil
				}
			}
			return false, nil
		}
		sl, ok := StrListOf(l.Int64())
		if !ok {
			return nil, fmt.Errorf("unknown string list %s", l)
		}
		for _, e := range sl {
			if x.Cmp(big.NewInt(StrID(e))) == 0 {
				return true, nil
			}
		}
		return false, nil
	case "emptyL":
		l, err := m.int(t.Args[0])
		if err != nil {
			return nil, err
		}
		sl, ok := StrListOf(l.Int64())
		if !ok {
			return nil, fmt.Errorf("unknown string list %s", l)
		}
		return len(sl) == 0, nil
	}
	if strings.HasPrefix(t.Op, "is-") {
		v, err := m.val(t.Args[0])
		return v.Ctor == t.Op[3:], err
	}
	if c, ok := selCtor[t.Op]; ok && len(t.Args) == 1 {
		v, err := m.val(t.Args[0])
		if err != nil {
			return nil, err
		}
		if v.Ctor != c { // selector applied to another constructor: unspecified in SMT; must not matter
			if t.Op == "bval" {
				return false, nil
			}
			return big.NewInt(0), nil
		}
		if t.Op == "bval" {
			return v.B, nil
		}
		return v.I, nil
	}
	if ci, ok := ctors[t.Op]; ok {
		v := cVal{Ctor: t.Op}
		if len(ci.sels) == 1 {
			if ci.ss[0] == SBool {
				b, err := m.bool(t.Args[0])
				if err != nil {
					return nil, err
				}
				v.B = b
			} else {
				i, err := m.int(t.Args[0])
				if err != nil {
					return nil, err
				}
				v.I = i
			}
		}
		return v, nil
	}
	// oracle symbols
	if len(t.Args) == 0 {
		switch {
		case strings.HasPrefix(t.Op, "gv_"):
			b, ok := m.sample.Vars[t.Op[3:]]
			if !ok {
				return nil, fmt.Errorf("no sample value for %s (a Get with an unexpected key or name)", t.Op)
			}
			if b.E {
				return cVal{Ctor: "VNil"}, nil
			}
			return xvalToC(b.V), nil
		case strings.HasPrefix(t.Op, "ge_"):
			b, ok := m.sample.Vars[t.Op[3:]]
			if !ok {
				return nil, fmt.Errorf("no sample value for %s", t.Op)
			}
			if b.E {
				return cVal{Ctor: "EErr", I: big.NewInt(fetchErrID(t.Op[3:]))}, nil
			}
			return cVal{Ctor: "ENil"}, nil
		case strings.HasPrefix(t.Op, "av_"):
			a, ok := m.sample.Avail[t.Op[3:]]
			return !ok || a, nil
		}
		if m.defs != nil {
			if b, ok := m.defs.body[t.Op]; ok {
				return m.eval(b)
			}
		}
		return nil, fmt.Errorf("unknown symbol %s", t.Op)
	}
	if strings.HasPrefix(t.Op, "cv_") || strings.HasPrefix(t.Op, "ce_") {
		rest := t.Op[3:]
		name := rest[:strings.LastIndex(rest, "_")]
		var args []cVal
		for _, a := range t.Args {
			v, err := m.val(a)
			if err != nil {
				return nil, err
			}
			args = append(args, v)
		}
		v, e, err := sampleOp(m.sample.Seed, name, args)
		if err != nil {
			return nil, err
		}
		if strings.HasPrefix(t.Op, "cv_") {
			return v, nil
		}
		return e, nil
	}
	return nil, fmt.Errorf("cannot evaluate %s", t.Op)
}

// outcomeOf: what the driver reported, as (value, error) of the term world.
func outcomeOf(o Outcome) (cVal, cVal, error) {
	if o.Panic != "" {
		return cVal{}, cVal{}, fmt.Errorf("real code panicked: %s", o.Panic)
	}
	switch {
	case o.E == "":
		return xvalToC(o.V), cVal{Ctor: "ENil"}, nil
	case strings.HasPrefix(o.E, "fetch:"):
		return cVal{}, cVal{Ctor: "EErr", I: big.NewInt(fetchErrID(o.E[6:]))}, nil
	case strings.HasPrefix(o.E, "custom:"):
		var n int64
		fmt.Sscan(o.E[7:], &n)
		return cVal{}, cVal{Ctor: "EErr", I: big.NewInt(n)}, nil
	case strings.HasPrefix(o.E, "builtin:"):
		return cVal{}, cVal{Ctor: "EBuiltin", I: big.NewInt(FamilyCode(o.E[8:]))}, nil
	}
	return cVal{}, cVal{}, fmt.Errorf("real code returned an unclassified error: %s", o.E)
}

func (s *Sample) String() string {
	var p []string
	for _, n := range sampleNames {
		b := s.Vars[n]
		v := "error"
		if !b.E {
			v = xvalToC(b.V).String()
		}
		a := ""
		if !s.Avail[n] {
			a = "(unavailable)"
		}
		p = append(p, n+"="+v+a)
	}
	return strings.Join(p, " ") + fmt.Sprintf(" seed=%d", s.Seed)
}

// predict: the outcome the unrolling predicts for the sample.
func predict(un *Unrolled, m *cModel) (v, e cVal, err error) {
	found := 0
	for _, p := range un.Paths {
		ok := true
		for _, lit := range p.PC {
			b, err := m.bool(lit)
			if err != nil {
				return v, e, err
			}
			if !b {
				ok = false
				break
			}
		}
		if !ok {
			continue
		}
		found++
		rr := p.Out.(*RunResult)
		if !rr.Returned() {
			return v, e, fmt.Errorf("the path taken does not return: panic %q unwind %v %s", rr.Panic, rr.Unwind, rr.Engine)
		}
		if e, err = m.val(rr.E); err != nil {
			return v, e, err
		}
		if e.Ctor == "ENil" {
			if v, err = m.val(rr.V); err != nil {
				return v, e, err
			}
		}
	}
	if found != 1 {
		return v, e, fmt.Errorf("%d paths of the unrolling are enabled by the concrete binding (exactly one expected)", found)
	}
	return v, e, nil
}

// Conform: the engine's model predicts the real outcome on the concrete samples.
func (cx *Checker) Conform(c *Case, samples []Sample) *core.Obl {
	o := cx.newObl("conform", c)
	if len(c.Prog.Samples) != len(samples) {
		o.Status = core.Unknown
		o.Output = fmt.Sprintf("driver returned %d sample results for %d samples", len(c.Prog.Samples), len(samples))
		return o
	}
	dom := &Domain{}
	unE := cx.Unroll(c, "Eval", dom)
	unT := cx.Unroll(c, "TryEval", dom)
	if unE.Trunc || unT.Trunc {
		return cx.overBudget(o)
	}
	var defs *Defs
	var lv, le *T
	if c.Job.Mask == 0 && !c.Job.Ev {
		defs = NewDefs()
		lv, le = NewRef(nil, defs).LR(c.Src)
	}
	cur := -1
	fail := func(format string, a ...interface{}) *core.Obl {
		o.Status = core.Refuted
		o.Detail = fmt.Sprintf(format, a...)
		o.Witness = fmt.Sprintf("src=%s cfg=%s: %s", escSrc(c.Text), c.Cfg, o.Detail)
		if cur >= 0 {
			// the replay re-runs the real code on this binding against the Go reference evaluator
			var spec ReplaySpec
			json.Unmarshal([]byte(o.ReplayData["spec"]), &spec)
			spec.Vars, spec.Avail = map[string]RBind{}, map[string]bool{}
			for n, b := range samples[cur].Vars {
				rb := RBind{}
				switch {
				case b.E:
					rb.E = fmt.Sprint(fetchErrID(n))
				default:
					rb.V = RVal{K: b.V.K, B: b.V.B, I: b.V.I, S: b.V.S}
				}
				spec.Vars[n] = rb
			}
			spec.Extra = map[string]string{"seed": fmt.Sprint(samples[cur].Seed)}
			bb, _ := json.Marshal(spec)
			o.ReplayData["spec"] = string(bb)
		}
		return o
	}
	for i, s := range samples {
		s := s
		cur = i
		m := &cModel{sample: &s, defs: defs, memo: map[string]interface{}{}}
		for _, run := range []struct {
			name string
			un   *Unrolled
			out  Outcome
		}{{"Eval", unE, c.Prog.Samples[i].Eval}, {"TryEval", unT, c.Prog.Samples[i].Try}} {
			rv, re, err := outcomeOf(run.out)
			if err != nil {
				return fail("sample %d [%s] %s: %v", i, s.String(), run.name, err)
			}
			pv, pe, err := predict(run.un, m)
			if err != nil {
				return fail("sample %d [%s] %s: model cannot be evaluated: %v (real: %s %s)", i, s.String(), run.name, err, rv, re)
			}
			if !pe.equal(re) || (re.Ctor == "ENil" && !pv.equal(rv)) {
				return fail("sample %d [%s] %s: the engine's model predicts (%s, %s), the real code returned (%s, %s)", i, s.String(), run.name, pv, pe, rv, re)
			}
			if run.name == "Eval" && lv != nil {
				xe, err := m.val(le)
				if err != nil {
					return fail("sample %d: LR term cannot be evaluated: %v", i, err)
				}
				xv := cVal{}
				if xe.Ctor == "ENil" {
					if xv, err = m.val(lv); err != nil {
						return fail("sample %d: LR term cannot be evaluated: %v", i, err)
					}
				}
				if !xe.equal(re) || (re.Ctor == "ENil" && !xv.equal(rv)) {
					return fail("sample %d [%s]: the reference term LR(src) evaluates to (%s, %s), the real Eval returned (%s, %s)", i, s.String(), xv, xe, rv, re)
				}
			}
		}
	}
	o.Detail = fmt.Sprintf("%d concrete bindings, Eval and TryEval", len(samples))
	return discharge(o, "concrete")
}
