#!/usr/bin/env python3
# Sets the vacuity-guard minimum of every claim pattern from the number of obligations it matched in the
# last run recorded in evidence/<ID>.json (never lowers a minimum that the run satisfied with margin < 5%).
# Run after `./check <ID>` on the unchanged tree; commit the changed claims files.
import json, sys, glob, os
root = os.path.dirname(os.path.dirname(os.path.abspath(__file__)))
for p in sorted(glob.glob(root + "/claims/C*.json")):
    d = json.load(open(p))
    ev = root + "/evidence/" + d["property"] + ".json"
    if not os.path.exists(ev):
        continue
    evd = json.load(open(ev))
    if evd.get("tier") != "quick":
        # the thorough tier enumerates more: its counts would set minima the quick check cannot reach
        # (it happened once: an alarm on the unchanged tree, caught before it was committed for good)
        print("skipped", os.path.basename(p), "(evidence is not from the quick tier)")
        continue
    cc = evd["coverage"].get("claim_counts")
    if not cc:
        continue
    got = {c["match"]: c["matched"] for c in cc}
    ch = False
    for c in d["claims"]:
        m = got.get(c["match"])
        if m is None:
            continue
        # bounded-tier groups are sized by the enumeration (independent of the code): tight guard; proof/sweep groups
        # shrink when code is legitimately simplified: the guard only has to notice a contract that no longer attaches
        if c["match"].startswith("bnd/"):
            new = max(1, int(m * 0.9))
        else:
            new = max(1, int(m * 0.5))
        if new != c.get("min"):
            c["min"] = new; ch = True
    if ch:
        json.dump(d, open(p, "w"), indent=1, ensure_ascii=False)
        print("updated", os.path.basename(p))
