// Package core holds what every engine of govc shares: the obligation record,
// the solver portfolio, claims / known-findings matching, the evidence writer
// and the verdict lines.
package core

import (
	"os"
	"path/filepath"
	"strconv"
)

type Status string

const (
	Discharged Status = "discharged" // unsat (or, for a canary, sat as required)
	Refuted    Status = "refuted"    // sat: the solver produced a counterexample
	Unknown    Status = "unknown"    // timeout / unknown / solver error
	Rejected   Status = "rejected"   // function outside the translated subset
)

// Strength of an obligation; never mixed up in reports.
const (
	Proved  = "proved"  // unbounded: all inputs, all iterations
	Bounded = "bounded" // deductive machinery under a stated bound (enumerated programs, unrolled loop)
	Sweep   = "sweep"   // exhaustive syntactic enumeration over the SSA of the current tree (decides a frame / call-site fact for all inputs)
)

// Obl is one proof obligation and what became of it.
type Obl struct {
	Name     string            `json:"name"`           // stable: <func>/<kind>/<anchor>
	Func     string            `json:"func,omitempty"` // function under contract (or program id in the bounded tier)
	Kind     string            `json:"kind"`           // safety | post | pre | inv | variant | canary | lemma | frame | bounded:<relation> ...
	Tier     string            `json:"tier"`           // Proved | Bounded | Sweep
	Canary   bool              `json:"canary,omitempty"`
	Detail   string            `json:"detail,omitempty"`
	Status   Status            `json:"status"`
	Solver   string            `json:"solver,omitempty"`
	TimeS    float64           `json:"time_s"`
	SMTBytes int               `json:"smt_bytes,omitempty"`
	Output   string            `json:"solver_output,omitempty"` // first lines of the winning / last solver output
	Model    map[string]string `json:"model,omitempty"`         // get-value results (term -> value)
	Pos      string            `json:"pos,omitempty"`           // source position (informational only; never used for matching)

	// Query is kept in memory only (written to the replay dir when the obligation fails).
	Query string `json:"-"`
	// Replay is filled by the replay step.
	Replay *ReplayResult `json:"replay,omitempty"`
	// Witness: decoded, human-readable failing input (when a model exists).
	Witness string `json:"witness,omitempty"`
	// ReplayKind / ReplayData let an engine describe how to replay a model on the real code.
	ReplayKind string            `json:"-"`
	ReplayData map[string]string `json:"-"`
}

type ReplayResult struct {
	Confirmed bool   `json:"confirmed"`
	Cmd       string `json:"cmd,omitempty"`
	Output    string `json:"output,omitempty"`
	TestFile  string `json:"test_file,omitempty"`
}

// FuncInfo describes a function under contract.
type FuncInfo struct {
	Name       string `json:"name"`
	File       string `json:"file"`
	SSAInstrs  int    `json:"ssa_instrs"`
	Requires   int    `json:"requires"`
	Ensures    int    `json:"ensures"`
	Invariants int    `json:"invariants"`
	Loops      int    `json:"loops"`
	Rejected   string `json:"rejected,omitempty"`
}

// Result is what one engine run returns.
type Result struct {
	Obls        []*Obl
	Funcs       []FuncInfo
	Assumptions []string
	Trusted     []string
	Samples     []interface{}
	Extra       map[string]interface{}
}

func (r *Result) Merge(o *Result) {
	if o == nil {
		return
	}
	r.Obls = append(r.Obls, o.Obls...)
	r.Funcs = append(r.Funcs, o.Funcs...)
	r.Assumptions = append(r.Assumptions, o.Assumptions...)
	r.Trusted = append(r.Trusted, o.Trusted...)
	r.Samples = append(r.Samples, o.Samples...)
	if r.Extra == nil {
		r.Extra = map[string]interface{}{}
	}
	for k, v := range o.Extra {
		r.Extra[k] = v
	}
}

// Env is the run configuration shared by the engines.
type Env struct {
	Repo     string // /repo
	Verif    string // /verif
	Out      string // where evidence/, replays/ and .work/ are written (default: Verif; the self-test redirects it)
	Tier     string // quick | thorough
	Seed     int64
	Work     string // scratch dir under /verif/.work/<id>
	Workers  int
	TimeoutS int // per obligation
	Verbose  bool
	// Claimed tells whether an obligation name is claimed by the property being checked; unclaimed
	// obligations are only attempted briefly (they never affect the verdict unless a replay confirms).
	Claimed func(name string) bool
}

func EnvFromOS(prop string) *Env {
	e := &Env{Repo: "/repo", Verif: "/verif", Tier: "quick", Workers: 16, TimeoutS: 20}
	if v := os.Getenv("VERIF_REPO"); v != "" {
		e.Repo = v
	}
	if v := os.Getenv("VERIF_DIR"); v != "" {
		e.Verif = v
	}
	if v := os.Getenv("VERIF_TIER"); v != "" {
		e.Tier = v
	}
	if v := os.Getenv("VERIF_SEED"); v != "" {
		if n, err := strconv.ParseInt(v, 10, 64); err == nil {
			e.Seed = n
		}
	}
	if v := os.Getenv("VERIF_WORKERS"); v != "" {
		if n, err := strconv.Atoi(v); err == nil && n > 0 {
			e.Workers = n
		}
	}
	e.Verbose = os.Getenv("VERIF_VERBOSE") != ""
	e.Out = e.Verif
	if v := os.Getenv("VERIF_OUT"); v != "" {
		e.Out = v
	}
	e.Work = filepath.Join(e.Out, ".work", prop)
	return e
}

func (e *Env) SetTier(t string) {
	e.Tier = t
	if t == "thorough" {
		e.TimeoutS = 60
	} else {
		e.TimeoutS = 20
	}
}
