package bounded

// Symbolic execution of the REAL go/ssa of (*Expr).Eval / (*Expr).TryEval and
// of the package-internal helpers they call, on one concrete exported program:
// control that depends only on the program is executed concretely, conditions
// that depend on fetched values / operator results fork (decision-vector path
// enumeration with a per-term decision cache).  Only what sits behind
// node.operator and ctx.VariableFetcher is replaced (oracles, direct terms).

import (
	"fmt"
	"go/constant"
	"go/token"
	"go/types"
	"sort"
	"strings"

	"golang.org/x/tools/go/ssa"

	"govc/internal/load"
)

// ---------------------------------------------------------------- interpreter values

type Value interface{}

type (
	IntV  int64
	BoolV bool
	StrV  string
	NilV  struct{} // nil pointer / func / chan / map / slice header is Slice{}
	DneV  struct{} // the value of the package variable DNE
)

// SymB is a symbolic boolean.
type SymB struct{ T *T }

// Obj is a heap object: a flat vector of slots (struct fields / array elements / one cell).
type Obj struct {
	s    []Value
	name string
}

// Ptr points to slot i of o, or to the whole object (i == -1).
type Ptr struct {
	o *Obj
	i int
}

type Slice struct {
	o           *Obj
	off, ln, cp int
}

type Tuple []Value

// StructV is a struct VALUE (a copy).
type StructV struct {
	typ string
	f   []Value
}

// Iface is an interface value: either described by an SMT term of sort Val /
// Err (Obj then holds the concrete Go payload when it is known: names, ...), or
// an opaque Go object (T == nil; event payloads).
type Iface struct {
	T    *T
	Obj  Value
	Sort Sort
}

// OpRef is a value of type Operator that is replaced by a term / an oracle.
type OpRef struct {
	name string
	kind string // builtin | custom | unknown
}

// Closure is a function value executed from its own SSA.
type Closure struct {
	fn   *ssa.Function
	bind []Value
	role string // "if" | "fi" | "wrap"
}

type FetcherV struct{}
type ChanV struct{ name string }

// ---------------------------------------------------------------- ghost records

// TraceRec is one entry of the effect trace: a Get or a custom-operator call.
type TraceRec struct {
	Kind string // "get" | "call"
	Name string
	Key  int64 // Get: the VariableKey passed
	Args []*T  // call: argument terms
	V, E *T    // result terms
}

func (r TraceRec) String() string {
	if r.Kind == "get" {
		return fmt.Sprintf("Get(%d,%s)", r.Key, r.Name)
	}
	var a []string
	for _, x := range r.Args {
		a = append(a, x.String())
	}
	return r.Name + "(" + strings.Join(a, ", ") + ")"
}

// EventRec is one send on EventChan, with slice contents read at the END of
// the evaluation (the consumer reads the event later).
type EventRec struct {
	Type     string // LOOP | OP_EXEC
	Stack    []*T   // LOOP: snapshot contents (final heap)
	CurtIdx  int64  // LOOP
	NodeType int64
	OpName   string // OP_EXEC
	IsFast   bool
	Params   []*T // OP_EXEC: contents of the Params slice in the final heap
	Res, Err *T
	// what the operand stack / parameter vector held at the time of the send
	StackAtSend  []*T
	ParamsAtSend []*T
	raw          StructV
}

// ---------------------------------------------------------------- one joint path

// Oracle says how the fetcher answers during one unrolling.
type Oracle struct {
	Get    func(key int64, name string) (v, e *T)
	Cached func(key int64, name string) *T
}

// ExpectedKey is the VariableKey the driver's registration gives a name.
func ExpectedKey(name string) int64 {
	for i, n := range append(append([]string{}, Alpha.BoolVars...), Alpha.IntVars...) {
		if n == name {
			return int64(i + 1)
		}
	}
	return -32768 // UndefinedVarKey
}

func keySuffix(key int64, name string) string {
	if key == ExpectedKey(name) {
		return name
	}
	if key < 0 {
		return fmt.Sprintf("%s_km%d", name, -key)
	}
	return fmt.Sprintf("%s_k%d", name, key)
}

// DefaultOracle: Get(k,name) = (gv_name, ge_name), Cached = av_name. A key
// other than the registered one reads a different, unconstrained location.
func DefaultOracle() *Oracle {
	return &Oracle{
		Get: func(key int64, name string) (*T, *T) {
			s := keySuffix(key, name)
			return Sym("gv_"+s, SVal), Sym("ge_"+s, SErr)
		},
		Cached: func(key int64, name string) *T { return Sym("av_"+keySuffix(key, name), SBool) },
	}
}

// Path is the state of one joint path: decisions, path condition, ghost state.
type Path struct {
	dom     *Domain
	dec     []bool
	pos     int
	decided map[string]bool
	pc      []*T
	steps   int

	oracle *Oracle
	trace  []TraceRec
	events []*EventRec
	sent   []sentEv

	panicMsg string
	unwind   bool
	engine   string // engine limitation hit (reported, never silently dropped)
}

type sentEv struct {
	ev      StructV
	stack   []*T
	params  []*T
	hasPars bool
}

type stopPath struct{}

// branch decides a symbolic condition on this path.
func (r *Path) branch(t *T) bool {
	switch {
	case t.IsTrue():
		return true
	case t.IsFalse():
		return false
	case t.Op == "not":
		return !r.branch(t.Args[0])
	case t.Op == "and":
		for _, a := range t.Args {
			if !r.branch(a) {
				return false
			}
		}
		return true
	case t.Op == "or":
		for _, a := range t.Args {
			if r.branch(a) {
				return true
			}
		}
		return false
	case t.Op == "ite" && t.Sort == SBool:
		if r.branch(t.Args[0]) {
			return r.branch(t.Args[1])
		}
		return r.branch(t.Args[2])
	case t.Op == "xor":
		return r.branch(t.Args[0]) != r.branch(t.Args[1])
	}
	key := t.String()
	if d, ok := r.decided[key]; ok {
		return d
	}
	if r.dom != nil {
		if v, ok := r.dom.Implied(t, r); ok {
			r.decided[key] = v
			return v
		}
	}
	var d bool
	if r.pos < len(r.dec) {
		d = r.dec[r.pos]
	} else {
		d = true
		r.dec = append(r.dec, true)
	}
	r.pos++
	r.decided[key] = d
	if d {
		r.pc = append(r.pc, t)
	} else {
		r.pc = append(r.pc, Not(t))
	}
	return d
}

// Known reports the value of an atom if this path already fixed it.
func (r *Path) Known(t *T) (bool, bool) {
	d, ok := r.decided[t.String()]
	return d, ok
}

// PathOut is the outcome of one joint path.
type PathOut struct {
	PC  []*T
	Out interface{}
}

// EnumeratePaths runs body once per feasible-looking decision vector.
func EnumeratePaths(dom *Domain, maxPaths int, body func(r *Path) interface{}) (outs []PathOut, truncated bool) {
	dec := []bool{}
	for {
		r := &Path{dom: dom, dec: dec, decided: map[string]bool{}, oracle: DefaultOracle()}
		out := body(r)
		outs = append(outs, PathOut{PC: r.pc, Out: out})
		dec = r.dec[:r.pos]
		k := len(dec) - 1
		for k >= 0 && !dec[k] {
			k--
		}
		if k < 0 {
			return outs, false
		}
		dec = append(append([]bool{}, dec[:k]...), false)
		if len(outs) >= maxPaths {
			return outs, true
		}
	}
}

// ---------------------------------------------------------------- the machine

// Machine holds what is shared by all runs: the SSA program and the layout of
// the structs the heap is built from.
type Machine struct {
	P        *load.Program
	Eval     *ssa.Function
	TryEval  *ssa.Function
	ifFn     *ssa.Function
	fiFn     *ssa.Function
	wrapFn   *ssa.Function
	nodeT    *types.Struct
	exprT    *types.Struct
	ctxT     *types.Struct
	nodeFld  map[string]int
	exprFld  map[string]int
	ctxFld   map[string]int
	loopHead map[*ssa.Function]*ssa.BasicBlock
	StepMax  int
}

func structOf(p *load.Program, name string) (*types.Struct, map[string]int, error) {
	obj := p.SSA.Pkg.Scope().Lookup(name)
	if obj == nil {
		return nil, nil, fmt.Errorf("type %s not found in the package", name)
	}
	st, ok := obj.Type().Underlying().(*types.Struct)
	if !ok {
		return nil, nil, fmt.Errorf("%s is not a struct", name)
	}
	m := map[string]int{}
	for i := 0; i < st.NumFields(); i++ {
		m[st.Field(i).Name()] = i
	}
	return st, m, nil
}

func NewMachine(p *load.Program) (*Machine, error) {
	m := &Machine{P: p, loopHead: map[*ssa.Function]*ssa.BasicBlock{}, StepMax: 4000000}
	m.Eval, m.TryEval = p.Funcs["Expr.Eval"], p.Funcs["Expr.TryEval"]
	if m.Eval == nil || m.TryEval == nil {
		return nil, fmt.Errorf("(*Expr).Eval / TryEval not found")
	}
	var err error
	if m.nodeT, m.nodeFld, err = structOf(p, "node"); err != nil {
		return nil, err
	}
	if m.exprT, m.exprFld, err = structOf(p, "Expr"); err != nil {
		return nil, err
	}
	if m.ctxT, m.ctxFld, err = structOf(p, "Ctx"); err != nil {
		return nil, err
	}
	for _, f := range []string{"flag", "childCnt", "scIdx", "osTop", "varKey", "value", "operator"} {
		if _, ok := m.nodeFld[f]; !ok {
			return nil, fmt.Errorf("node has no field %s", f)
		}
	}
	for _, f := range []string{"maxStackSize", "nodes", "parentIdx", "EventChan"} {
		if _, ok := m.exprFld[f]; !ok {
			return nil, fmt.Errorf("Expr has no field %s", f)
		}
	}
	if bk := p.Funcs["parser.buildKeywordNode"]; bk != nil && len(bk.AnonFuncs) == 2 {
		m.ifFn, m.fiFn = bk.AnonFuncs[0], bk.AnonFuncs[1]
	}
	if ce := p.Funcs["calAndSetEventNode"]; ce != nil && len(ce.AnonFuncs) >= 1 {
		m.wrapFn = p.Funcs["calAndSetEventNode.wrapOpEvent"]
		if m.wrapFn == nil {
			m.wrapFn = ce.AnonFuncs[0]
		}
	}
	for _, fn := range []*ssa.Function{m.Eval, m.TryEval} {
		m.loopHead[fn] = outerLoopHead(fn)
	}
	return m, nil
}

// outerLoopHead: target of a back edge with the smallest index (the main loop).
func outerLoopHead(fn *ssa.Function) *ssa.BasicBlock {
	state := map[*ssa.BasicBlock]int{}
	var heads []*ssa.BasicBlock
	var dfs func(b *ssa.BasicBlock)
	dfs = func(b *ssa.BasicBlock) {
		state[b] = 1
		for _, s := range b.Succs {
			switch state[s] {
			case 0:
				dfs(s)
			case 1:
				heads = append(heads, s)
			}
		}
		state[b] = 2
	}
	if len(fn.Blocks) > 0 {
		dfs(fn.Blocks[0])
	}
	sort.Slice(heads, func(i, j int) bool { return heads[i].Index < heads[j].Index })
	// the outermost loop is the head that dominates the others
	for _, h := range heads {
		ok := true
		for _, o := range heads {
			if !h.Dominates(o) {
				ok = false
			}
		}
		if ok {
			return h
		}
	}
	if len(heads) > 0 {
		return heads[0]
	}
	return nil
}

// ---------------------------------------------------------------- heap construction

// Heap is the concrete program in interpreter memory.
type Heap struct {
	Expr  Ptr
	Ctx   Ptr
	Nodes []*Obj
	prog  *XProg
}

func valOfX(v XVal) Iface {
	switch v.K {
	case "nil":
		return Iface{T: VNil, Obj: NilV{}, Sort: SVal}
	case "bool":
		return Iface{T: VBool(BoolT(v.B)), Obj: BoolV(v.B), Sort: SVal}
	case "int":
		return Iface{T: VInt(Int(v.I)), Obj: IntV(v.I), Sort: SVal}
	case "str", "kw":
		return Iface{T: VStr(Int(StrID(v.S))), Obj: StrV(v.S), Sort: SVal}
	case "ilist":
		return Iface{T: VIntList(Int(IntListID(v.IL))), Sort: SVal}
	case "slist":
		return Iface{T: VStrList(Int(StrListID(v.SL))), Sort: SVal}
	case "dne":
		return Iface{T: VDNE, Obj: DneV{}, Sort: SVal}
	case "loopev":
		inner := valOfX(v.Ev.NodeValue)
		return Iface{Obj: StructV{typ: "LoopEventData", f: []Value{IntV(v.Ev.CurtIdx), IntV(v.Ev.NodeType), inner}}, Sort: SVal}
	}
	return Iface{T: VObj(Int(StrID(v.K + ":" + v.S))), Sort: SVal}
}

func (m *Machine) zero(t types.Type) Value {
	switch u := t.Underlying().(type) {
	case *types.Basic:
		switch {
		case u.Info()&types.IsInteger != 0:
			return IntV(0)
		case u.Info()&types.IsBoolean != 0:
			return BoolV(false)
		case u.Info()&types.IsString != 0:
			return StrV("")
		}
	case *types.Interface:
		if isErrorType(t) {
			return Iface{T: ENil, Obj: NilV{}, Sort: SErr}
		}
		return Iface{T: VNil, Obj: NilV{}, Sort: SVal}
	case *types.Slice:
		return Slice{}
	case *types.Struct:
		sv := StructV{typ: t.String(), f: make([]Value, u.NumFields())}
		for i := range sv.f {
			sv.f[i] = m.zero(u.Field(i).Type())
		}
		return sv
	}
	return NilV{}
}

func isErrorType(t types.Type) bool {
	if t.String() == "error" {
		return true
	}
	it, ok := t.Underlying().(*types.Interface)
	if !ok {
		return false
	}
	for i := 0; i < it.NumMethods(); i++ {
		if it.Method(i).Name() == "Error" {
			return true
		}
	}
	return false
}

func (m *Machine) newObj(t types.Type) *Obj {
	switch u := t.Underlying().(type) {
	case *types.Array:
		o := &Obj{s: make([]Value, u.Len())}
		for i := range o.s {
			o.s[i] = m.zero(u.Elem())
		}
		return o
	case *types.Struct:
		o := &Obj{s: make([]Value, u.NumFields()), name: t.String()}
		for i := range o.s {
			o.s[i] = m.zero(u.Field(i).Type())
		}
		return o
	}
	return &Obj{s: []Value{m.zero(t)}}
}

// BuildHeap allocates the exported program. It needs a Run because building a
// wrapped operator executes the real wrapOpEvent.
func (m *Machine) BuildHeap(r *Path, p *XProg) (*Heap, error) {
	h := &Heap{prog: p}
	nodesArr := &Obj{s: make([]Value, len(p.Nodes)), name: "nodes"}
	exprObj := m.newObj(m.exprT)
	exprObj.name = "Expr"
	h.Expr = Ptr{exprObj, -1}
	exprCell := &Obj{s: []Value{h.Expr}, name: "&e"}
	for i, n := range p.Nodes {
		o := m.newObj(m.nodeT)
		o.name = fmt.Sprintf("node%d", i)
		o.s[m.nodeFld["flag"]] = IntV(n.Flag)
		o.s[m.nodeFld["childCnt"]] = IntV(n.ChildCnt)
		o.s[m.nodeFld["scIdx"]] = IntV(n.ScIdx)
		o.s[m.nodeFld["osTop"]] = IntV(n.OsTop)
		o.s[m.nodeFld["varKey"]] = IntV(n.VarKey)
		o.s[m.nodeFld["value"]] = valOfX(n.Val)
		var op Value = NilV{}
		inner := func() Value {
			if Alpha.IsCustom(n.Val.S) {
				return OpRef{name: n.Val.S, kind: "custom"}
			}
			if IsBuiltinTerm(n.Val.S) {
				return OpRef{name: n.Val.S, kind: "builtin"}
			}
			return OpRef{name: n.Val.S, kind: "unknown"}
		}
		switch n.Op {
		case "":
		case "builtin":
			if IsBuiltinTerm(n.Val.S) {
				op = OpRef{name: n.Val.S, kind: "builtin"}
			} else {
				op = OpRef{name: n.Val.S, kind: "unknown"}
			}
		case "custom":
			op = OpRef{name: n.Val.S, kind: "custom"}
		case "if":
			if m.ifFn == nil {
				return nil, fmt.Errorf("the closures of buildKeywordNode were not found")
			}
			op = Closure{fn: m.ifFn, role: "if"}
		case "fi":
			if m.fiFn == nil {
				return nil, fmt.Errorf("the closures of buildKeywordNode were not found")
			}
			op = Closure{fn: m.fiFn, role: "fi"}
		case "wrapped":
			if m.wrapFn == nil {
				return nil, fmt.Errorf("wrapOpEvent not found")
			}
			o.s[m.nodeFld["operator"]] = inner()
			in := &interp{m: m, run: r}
			res := in.callFn(m.wrapFn, []Value{Ptr{o, -1}}, []Value{Ptr{exprCell, 0}}, "")
			c, ok := res.(Closure)
			if !ok {
				return nil, fmt.Errorf("wrapOpEvent did not return a closure")
			}
			c.role = "wrap"
			op = c
		default:
			op = OpRef{name: n.Val.S, kind: "unknown"}
		}
		o.s[m.nodeFld["operator"]] = op
		nodesArr.s[i] = Ptr{o, -1}
		h.Nodes = append(h.Nodes, o)
	}
	par := &Obj{s: make([]Value, len(p.Parent)), name: "parentIdx"}
	for i, x := range p.Parent {
		par.s[i] = IntV(x)
	}
	exprObj.s[m.exprFld["maxStackSize"]] = IntV(p.MaxStack)
	exprObj.s[m.exprFld["nodes"]] = Slice{nodesArr, 0, len(nodesArr.s), len(nodesArr.s)}
	exprObj.s[m.exprFld["parentIdx"]] = Slice{par, 0, len(par.s), len(par.s)}
	exprObj.s[m.exprFld["EventChan"]] = ChanV{"EventChan"}
	ctxObj := m.newObj(m.ctxT)
	ctxObj.name = "Ctx"
	if i, ok := m.ctxFld["VariableFetcher"]; ok {
		ctxObj.s[i] = FetcherV{}
	}
	h.Ctx = Ptr{ctxObj, -1}
	return h, nil
}

// RunResult is the outcome of one unrolling on one path.
type RunResult struct {
	V, E   *T
	Panic  string // non-empty: the path panics (safety violation)
	Unwind bool   // the unwinding / step bound was hit
	Engine string // an engine limitation was hit
	Trace  []TraceRec
	Events []*EventRec
}

func (rr *RunResult) Returned() bool { return rr.Panic == "" && !rr.Unwind && rr.Engine == "" }

// Exec unrolls fn (Eval or TryEval) on program p under the current path.
func (m *Machine) Exec(r *Path, fn *ssa.Function, p *XProg, or *Oracle) *RunResult {
	return m.ExecOn(r, fn, p, or, nil)
}

// ExecOn is Exec on a given heap cell: when *hp is non-nil the program is NOT
// re-allocated, the unrolling runs on the heap the previous run left behind
// (repeated evaluation of one compiled expression, C10).
func (m *Machine) ExecOn(r *Path, fn *ssa.Function, p *XProg, or *Oracle, hp **Heap) *RunResult {
	save := r.oracle
	if or != nil {
		r.oracle = or
	}
	r.trace, r.sent, r.panicMsg, r.unwind, r.engine = nil, nil, "", false, ""
	defer func() { r.oracle = save }()
	rr := &RunResult{}
	func() {
		defer func() {
			if x := recover(); x != nil {
				if _, ok := x.(stopPath); ok {
					return
				}
				r.engine = fmt.Sprintf("interpreter: %v", x)
			}
		}()
		var h *Heap
		if hp != nil && *hp != nil {
			h = *hp
		} else {
			var err error
			h, err = m.BuildHeap(r, p)
			if err != nil {
				r.engine = err.Error()
				return
			}
			if hp != nil {
				*hp = h
			}
		}
		in := &interp{m: m, run: r, nNodes: len(p.Nodes)}
		res := in.callFn(fn, []Value{h.Expr, h.Ctx}, nil, "")
		if t, ok := res.(Tuple); ok && len(t) == 2 {
			v, ok1 := t[0].(Iface)
			e, ok2 := t[1].(Iface)
			if ok1 && ok2 && v.T != nil && e.T != nil {
				rr.V, rr.E = v.T, e.T
			} else if ok1 && ok2 && e.T != nil {
				// an opaque object (event payload) as result: give it an identity
				rr.V, rr.E = VObj(Int(StrID(fmt.Sprint(v.Obj)))), e.T
			} else {
				r.engine = "unexpected result shape"
			}
		} else {
			r.engine = "unexpected result shape"
		}
	}()
	rr.Panic, rr.Unwind, rr.Engine = r.panicMsg, r.unwind, r.engine
	rr.Trace = r.trace
	// events: slice contents are read now, at the end of the evaluation
	for _, s := range r.sent {
		rr.Events = append(rr.Events, decodeEvent(s))
	}
	return rr
}

func sliceTerms(v Value) []*T {
	s, ok := v.(Slice)
	if !ok {
		return nil
	}
	out := make([]*T, 0, s.ln)
	for i := 0; i < s.ln; i++ {
		out = append(out, ifaceTerm(s.o.s[s.off+i]))
	}
	return out
}

func ifaceTerm(v Value) *T {
	if x, ok := v.(Iface); ok {
		if x.T != nil {
			return x.T
		}
		return VObj(Int(StrID(fmt.Sprint(x.Obj))))
	}
	return VObj(Int(StrID(fmt.Sprintf("%T", v))))
}

func decodeEvent(s sentEv) *EventRec {
	ev := &EventRec{raw: s.ev}
	// Event{EventType, Stack, Data}
	if len(s.ev.f) != 3 {
		ev.Type = "?"
		return ev
	}
	if t, ok := s.ev.f[0].(StrV); ok {
		ev.Type = string(t)
	}
	ev.Stack = sliceTerms(s.ev.f[1])
	ev.StackAtSend = s.stack
	if d, ok := s.ev.f[2].(Iface); ok {
		if sv, ok := d.Obj.(StructV); ok {
			switch {
			case strings.HasSuffix(sv.typ, "LoopEventData") && len(sv.f) == 3:
				if x, ok := sv.f[0].(IntV); ok {
					ev.CurtIdx = int64(x)
				}
				if x, ok := sv.f[1].(IntV); ok {
					ev.NodeType = int64(x)
				}
			case strings.HasSuffix(sv.typ, "OpEventData") && len(sv.f) == 5:
				if x, ok := sv.f[0].(BoolV); ok {
					ev.IsFast = bool(x)
				}
				if x, ok := sv.f[1].(StrV); ok {
					ev.OpName = string(x)
				}
				ev.Params = sliceTerms(sv.f[2])
				ev.ParamsAtSend = s.params
				ev.Res, ev.Err = ifaceTerm(sv.f[3]), ifaceTerm(sv.f[4])
			}
		}
	}
	return ev
}

// ---------------------------------------------------------------- the interpreter proper

type interp struct {
	m      *Machine
	run    *Path
	nNodes int
	depth  int
}

func (in *interp) panicPath(format string, a ...interface{}) {
	in.run.panicMsg = fmt.Sprintf(format, a...)
	panic(stopPath{})
}

func (in *interp) unwindPath() {
	in.run.unwind = true
	panic(stopPath{})
}

func (in *interp) limit(format string, a ...interface{}) {
	in.run.engine = fmt.Sprintf(format, a...)
	panic(stopPath{})
}

func wrapTo(t types.Type, x int64) int64 {
	b, ok := t.Underlying().(*types.Basic)
	if !ok {
		return x
	}
	switch b.Kind() {
	case types.Int8:
		return int64(int8(x))
	case types.Int16:
		return int64(int16(x))
	case types.Int32:
		return int64(int32(x))
	case types.Uint8:
		return int64(uint8(x))
	case types.Uint16:
		return int64(uint16(x))
	case types.Uint32:
		return int64(uint32(x))
	}
	return x
}

func symOrConc(t *T) Value {
	switch {
	case t.IsTrue():
		return BoolV(true)
	case t.IsFalse():
		return BoolV(false)
	}
	return SymB{t}
}

func boolTerm(v Value) *T {
	switch c := v.(type) {
	case BoolV:
		return BoolT(bool(c))
	case SymB:
		return c.T
	}
	panic(fmt.Sprintf("not a boolean: %T", v))
}

func (in *interp) constVal(c *ssa.Const) Value {
	t := c.Type()
	if c.Value == nil {
		return in.m.zero(t)
	}
	switch c.Value.Kind() {
	case constant.Bool:
		return BoolV(constant.BoolVal(c.Value))
	case constant.Int:
		n, _ := constant.Int64Val(c.Value)
		return IntV(n)
	case constant.String:
		return StrV(constant.StringVal(c.Value))
	}
	in.limit("constant %s", c.String())
	return nil
}

func (in *interp) callFn(fn *ssa.Function, args []Value, bind []Value, role string) Value {
	if len(fn.Blocks) == 0 {
		in.limit("call of a function without body: %s", fn.String())
	}
	in.depth++
	if in.depth > 64 {
		in.limit("call depth")
	}
	defer func() { in.depth-- }()
	env := map[ssa.Value]Value{}
	for i, p := range fn.Params {
		env[p] = args[i]
	}
	for i, fv := range fn.FreeVars {
		if i < len(bind) {
			env[fv] = bind[i]
		}
	}
	get := func(v ssa.Value) Value {
		switch x := v.(type) {
		case *ssa.Const:
			return in.constVal(x)
		case *ssa.Function:
			return Closure{fn: x}
		case *ssa.Global:
			if x.Name() == "DNE" {
				return Ptr{&Obj{s: []Value{DneV{}}, name: "DNE"}, 0}
			}
			in.limit("read of package variable %s", x.Name())
		}
		r, ok := env[v]
		if !ok {
			in.limit("unbound SSA value %s in %s", v.Name(), fn.Name())
		}
		return r
	}
	visits := map[*ssa.BasicBlock]int{}
	head := in.m.loopHead[fn]
	var prev *ssa.BasicBlock
	b := fn.Blocks[0]
	for {
		visits[b]++
		if b == head && in.nNodes > 0 && visits[b] > in.nNodes+1 {
			in.unwindPath() // unwinding assertion: more than len(nodes)+1 loop heads
		}
		if visits[b] > 2*in.nNodes+64 {
			in.unwindPath()
		}
		var next *ssa.BasicBlock
		for _, ins := range b.Instrs {
			in.run.steps++
			if in.run.steps > in.m.StepMax {
				in.unwindPath()
			}
			switch x := ins.(type) {
			case *ssa.DebugRef:
			case *ssa.Phi:
				for i, p := range b.Preds {
					if p == prev {
						env[x] = get(x.Edges[i])
					}
				}
			case *ssa.Alloc:
				el := x.Type().(*types.Pointer).Elem()
				o := in.m.newObj(el)
				switch el.Underlying().(type) {
				case *types.Array, *types.Struct:
					env[x] = Ptr{o, -1}
				default:
					env[x] = Ptr{o, 0}
				}
			case *ssa.FieldAddr:
				p, ok := get(x.X).(Ptr)
				if !ok {
					in.panicPath("nil pointer dereference (field address) at %s", in.m.P.PosString(x.Pos()))
				}
				env[x] = Ptr{p.o, x.Field}
			case *ssa.Field:
				sv, ok := get(x.X).(StructV)
				if !ok {
					in.limit("field of non-struct value")
				}
				env[x] = sv.f[x.Field]
			case *ssa.IndexAddr:
				idx := int(in.intOf(get(x.Index)))
				switch c := get(x.X).(type) {
				case Slice:
					if idx < 0 || idx >= c.ln {
						in.panicPath("index out of range [%d] with length %d at %s (%s)", idx, c.ln, in.m.P.PosString(x.Pos()), in.m.P.ExprAt(fn, x.Pos(), nil))
					}
					env[x] = Ptr{c.o, c.off + idx}
				case Ptr:
					if idx < 0 || idx >= len(c.o.s) {
						in.panicPath("array index out of range [%d] at %s", idx, in.m.P.PosString(x.Pos()))
					}
					env[x] = Ptr{c.o, idx}
				default:
					in.panicPath("nil pointer dereference (index) at %s", in.m.P.PosString(x.Pos()))
				}
			case *ssa.UnOp:
				v := get(x.X)
				switch x.Op {
				case token.MUL:
					p, ok := v.(Ptr)
					if !ok {
						in.panicPath("nil pointer dereference at %s", in.m.P.PosString(x.Pos()))
					}
					env[x] = in.load(p)
				case token.NOT:
					env[x] = symOrConc(Not(boolTerm(v)))
				case token.SUB:
					env[x] = IntV(wrapTo(x.Type(), -in.intOf(v)))
				case token.XOR:
					env[x] = IntV(wrapTo(x.Type(), ^in.intOf(v)))
				default:
					in.limit("unary operator %s", x.Op)
				}
			case *ssa.Store:
				p, ok := get(x.Addr).(Ptr)
				if !ok {
					in.panicPath("nil pointer dereference (store) at %s", in.m.P.PosString(x.Pos()))
				}
				in.store(p, get(x.Val))
			case *ssa.BinOp:
				env[x] = in.binop(x, get(x.X), get(x.Y))
			case *ssa.Convert:
				switch v := get(x.X).(type) {
				case IntV:
					env[x] = IntV(wrapTo(x.Type(), int64(v)))
				case StrV:
					env[x] = v
				default:
					in.limit("conversion of %T", v)
				}
			case *ssa.ChangeType:
				env[x] = get(x.X)
			case *ssa.ChangeInterface:
				env[x] = get(x.X)
			case *ssa.Slice:
				env[x] = in.slice(x, get)
			case *ssa.MakeSlice:
				n := int(in.intOf(get(x.Len)))
				c := int(in.intOf(get(x.Cap)))
				if n < 0 || c < n {
					in.panicPath("makeslice: len out of range (%d) at %s", n, in.m.P.PosString(x.Pos()))
				}
				el := x.Type().Underlying().(*types.Slice).Elem()
				o := &Obj{s: make([]Value, c), name: "make"}
				for i := range o.s {
					o.s[i] = in.m.zero(el)
				}
				env[x] = Slice{o, 0, n, c}
			case *ssa.MakeInterface:
				env[x] = in.makeInterface(x, get(x.X))
			case *ssa.MakeClosure:
				c := Closure{fn: x.Fn.(*ssa.Function)}
				for _, bv := range x.Bindings {
					c.bind = append(c.bind, get(bv))
				}
				env[x] = c
			case *ssa.TypeAssert:
				env[x] = in.typeAssert(x, get(x.X))
			case *ssa.Extract:
				env[x] = get(x.Tuple).(Tuple)[x.Index]
			case *ssa.Call:
				env[x] = in.doCall(x, get, role)
			case *ssa.Send:
				in.send(get(x.Chan), get(x.X), x)
			case *ssa.If:
				var d bool
				switch c := get(x.Cond).(type) {
				case BoolV:
					d = bool(c)
				case SymB:
					d = in.run.branch(c.T)
				default:
					in.limit("condition of type %T", c)
				}
				if d {
					next = b.Succs[0]
				} else {
					next = b.Succs[1]
				}
			case *ssa.Jump:
				next = b.Succs[0]
			case *ssa.Return:
				if len(x.Results) == 0 {
					return nil
				}
				if len(x.Results) == 1 {
					return get(x.Results[0])
				}
				t := Tuple{}
				for _, r := range x.Results {
					t = append(t, get(r))
				}
				return t
			case *ssa.Panic:
				in.panicPath("explicit panic at %s", in.m.P.PosString(x.Pos()))
			case *ssa.RunDefers:
			default:
				in.limit("unsupported SSA instruction %T: %s", ins, ins)
			}
		}
		if next == nil {
			in.limit("block without terminator")
		}
		prev, b = b, next
	}
}

func (in *interp) intOf(v Value) int64 {
	n, ok := v.(IntV)
	if !ok {
		in.limit("integer expected, got %T", v)
	}
	return int64(n)
}

func (in *interp) load(p Ptr) Value {
	if p.i == -1 {
		return StructV{typ: p.o.name, f: append([]Value{}, p.o.s...)}
	}
	return p.o.s[p.i]
}

func (in *interp) store(p Ptr, v Value) {
	if p.i == -1 {
		sv, ok := v.(StructV)
		if !ok || len(sv.f) != len(p.o.s) {
			in.limit("store of %T into a struct object", v)
		}
		copy(p.o.s, sv.f)
		return
	}
	p.o.s[p.i] = v
}

func (in *interp) slice(x *ssa.Slice, get func(ssa.Value) Value) Value {
	var o *Obj
	var off, ln, cp int
	switch c := get(x.X).(type) {
	case Ptr:
		o, off, ln, cp = c.o, 0, len(c.o.s), len(c.o.s)
	case Slice:
		o, off, ln, cp = c.o, c.off, c.ln, c.cp
	default:
		in.limit("slice of %T", c)
	}
	lo, hi, max := 0, ln, cp
	if x.Low != nil {
		lo = int(in.intOf(get(x.Low)))
	}
	if x.High != nil {
		hi = int(in.intOf(get(x.High)))
	}
	if x.Max != nil {
		max = int(in.intOf(get(x.Max)))
	}
	if lo < 0 || hi < lo || max < hi || max > cp {
		in.panicPath("slice bounds out of range [%d:%d] with capacity %d at %s (%s)", lo, hi, cp, in.m.P.PosString(x.Pos()), in.m.P.ExprAt(x.Parent(), x.Pos(), nil))
	}
	return Slice{o, off + lo, hi - lo, max - lo}
}

func (in *interp) makeInterface(x *ssa.MakeInterface, v Value) Value {
	switch c := v.(type) {
	case BoolV:
		return Iface{T: VBool(BoolT(bool(c))), Obj: c, Sort: SVal}
	case SymB:
		return Iface{T: VBool(c.T), Sort: SVal}
	case DneV:
		return Iface{T: VDNE, Obj: c, Sort: SVal}
	case IntV:
		if b, ok := x.X.Type().Underlying().(*types.Basic); ok && b.Kind() == types.Int64 {
			return Iface{T: VInt(Int(int64(c))), Obj: c, Sort: SVal}
		}
		return Iface{T: VObj(Int(StrID(fmt.Sprintf("%s:%d", x.X.Type(), int64(c))))), Obj: c, Sort: SVal}
	case StrV:
		if b, ok := x.X.Type().(*types.Basic); ok && b.Kind() == types.String {
			return Iface{T: VStr(Int(StrID(string(c)))), Obj: c, Sort: SVal}
		}
		return Iface{T: VObj(Int(StrID(fmt.Sprintf("%s:%s", x.X.Type(), string(c))))), Obj: c, Sort: SVal}
	case StructV:
		c.typ = x.X.Type().String()
		return Iface{Obj: c, Sort: SVal}
	}
	in.limit("make interface of %T", v)
	return nil
}

func (in *interp) typeAssert(x *ssa.TypeAssert, v Value) Value {
	iv, ok := v.(Iface)
	if !ok {
		in.limit("type assertion on %T", v)
	}
	at := x.AssertedType
	basic, _ := at.(*types.Basic)
	if basic == nil {
		// asserting to an interface type or a named type: only the identity cases occur
		if _, isI := at.Underlying().(*types.Interface); isI && !x.CommaOk {
			return iv
		}
		in.limit("type assertion to %s", at)
	}
	switch basic.Kind() {
	case types.Bool:
		if iv.T == nil {
			if x.CommaOk {
				return Tuple{BoolV(false), BoolV(false)}
			}
			in.panicPath("interface conversion: not a bool at %s", in.m.P.PosString(x.Pos()))
		}
		isb := Is("VBool", iv.T)
		if x.CommaOk {
			return Tuple{symOrConc(BVal(iv.T)), symOrConc(isb)}
		}
		if !in.run.branch(isb) {
			in.panicPath("interface conversion: Value is not bool at %s", in.m.P.PosString(x.Pos()))
		}
		return symOrConc(BVal(iv.T))
	case types.String:
		if s, ok := iv.Obj.(StrV); ok && iv.T != nil && iv.T.Op == "VStr" {
			if x.CommaOk {
				return Tuple{s, BoolV(true)}
			}
			return s
		}
		if iv.T == nil || iv.T.isCtor() {
			if x.CommaOk {
				return Tuple{StrV(""), BoolV(false)}
			}
			in.panicPath("interface conversion: Value is %s, not string at %s (%s)", describeVal(iv), in.m.P.PosString(x.Pos()), in.m.P.ExprAt(x.Parent(), x.Pos(), nil))
		}
		// symbolic value where a name is needed
		if !x.CommaOk {
			if !in.run.branch(Is("VStr", iv.T)) {
				in.panicPath("interface conversion: Value is not string at %s", in.m.P.PosString(x.Pos()))
			}
		}
		in.limit("symbolic string needed at %s", in.m.P.PosString(x.Pos()))
	}
	in.limit("type assertion to %s", at)
	return nil
}

func describeVal(iv Iface) string {
	if iv.T != nil {
		return iv.T.String()
	}
	return fmt.Sprintf("%v", iv.Obj)
}

func (in *interp) binop(x *ssa.BinOp, a, b Value) Value {
	switch l := a.(type) {
	case IntV:
		r := in.intOf(b)
		n := int64(l)
		ty := x.Type()
		switch x.Op {
		case token.ADD:
			return IntV(wrapTo(ty, n+r))
		case token.SUB:
			return IntV(wrapTo(ty, n-r))
		case token.MUL:
			return IntV(wrapTo(ty, n*r))
		case token.QUO:
			if r == 0 {
				in.panicPath("integer divide by zero at %s", in.m.P.PosString(x.Pos()))
			}
			return IntV(wrapTo(ty, n/r))
		case token.REM:
			if r == 0 {
				in.panicPath("integer divide by zero at %s", in.m.P.PosString(x.Pos()))
			}
			return IntV(wrapTo(ty, n%r))
		case token.AND:
			return IntV(n & r)
		case token.OR:
			return IntV(n | r)
		case token.XOR:
			return IntV(wrapTo(ty, n^r))
		case token.AND_NOT:
			return IntV(n &^ r)
		case token.SHL:
			return IntV(wrapTo(ty, n<<uint(r)))
		case token.SHR:
			return IntV(n >> uint(r))
		case token.EQL:
			return BoolV(n == r)
		case token.NEQ:
			return BoolV(n != r)
		case token.LSS:
			return BoolV(n < r)
		case token.LEQ:
			return BoolV(n <= r)
		case token.GTR:
			return BoolV(n > r)
		case token.GEQ:
			return BoolV(n >= r)
		}
	case StrV:
		r, ok := b.(StrV)
		if !ok {
			in.limit("string comparison with %T", b)
		}
		switch x.Op {
		case token.EQL:
			return BoolV(l == r)
		case token.NEQ:
			return BoolV(l != r)
		case token.ADD:
			return l + r
		}
	case BoolV, SymB:
		ta, tb := boolTerm(a), boolTerm(b)
		switch x.Op {
		case token.EQL:
			return symOrConc(Eq(ta, tb))
		case token.NEQ:
			return symOrConc(Not(Eq(ta, tb)))
		}
	case Iface:
		r, ok := b.(Iface)
		if !ok {
			in.limit("interface comparison with %T", b)
		}
		if l.T == nil || r.T == nil {
			in.limit("comparison of opaque interface values")
		}
		t := Eq(l.T, r.T)
		if x.Op == token.NEQ {
			t = Not(t)
		} else if x.Op != token.EQL {
			in.limit("interface operator %s", x.Op)
		}
		return symOrConc(t)
	case NilV, Ptr:
		eq := a == b
		if pa, ok := a.(Ptr); ok {
			pb, ok2 := b.(Ptr)
			eq = ok2 && pa.o == pb.o && pa.i == pb.i
		} else {
			_, eq = b.(NilV)
		}
		switch x.Op {
		case token.EQL:
			return BoolV(eq)
		case token.NEQ:
			return BoolV(!eq)
		}
	}
	in.limit("binary operator %s on %T", x.Op, a)
	return nil
}

func (in *interp) send(ch, v Value, x *ssa.Send) {
	if _, ok := ch.(ChanV); !ok {
		in.panicPath("send on nil channel (blocks forever) at %s", in.m.P.PosString(x.Pos()))
	}
	sv, ok := v.(StructV)
	if !ok {
		in.limit("send of %T", v)
	}
	s := sentEv{ev: sv}
	if len(sv.f) == 3 {
		s.stack = sliceTerms(sv.f[1])
		if d, ok := sv.f[2].(Iface); ok {
			if od, ok := d.Obj.(StructV); ok && len(od.f) == 5 {
				s.params = sliceTerms(od.f[2])
				s.hasPars = true
			}
		}
	}
	in.run.sent = append(in.run.sent, s)
}

func (in *interp) doCall(x *ssa.Call, get func(ssa.Value) Value, role string) Value {
	com := x.Common()
	if com.IsInvoke() {
		recv := get(com.Value)
		if _, ok := recv.(FetcherV); !ok {
			if iv, isI := recv.(Iface); isI && iv.Obj == (NilV{}) {
				in.panicPath("nil pointer dereference: method call on nil interface at %s", in.m.P.PosString(x.Pos()))
			}
			in.limit("invoke of %s on %T", com.Method.Name(), recv)
		}
		switch com.Method.Name() {
		case "Get":
			key := in.intOf(get(com.Args[0]))
			name, ok := get(com.Args[1]).(StrV)
			if !ok {
				in.limit("Get with a non-concrete name")
			}
			v, e := in.run.oracle.Get(key, string(name))
			in.run.trace = append(in.run.trace, TraceRec{Kind: "get", Name: string(name), Key: key, V: v, E: e})
			return Tuple{Iface{T: v, Sort: SVal}, Iface{T: e, Sort: SErr}}
		case "Cached":
			key := in.intOf(get(com.Args[0]))
			name, ok := get(com.Args[1]).(StrV)
			if !ok {
				in.limit("Cached with a non-concrete name")
			}
			return symOrConc(in.run.oracle.Cached(key, string(name)))
		}
		in.limit("invoke %s", com.Method.Name())
	}
	if bi, ok := com.Value.(*ssa.Builtin); ok {
		switch bi.Name() {
		case "len":
			switch c := get(com.Args[0]).(type) {
			case Slice:
				return IntV(c.ln)
			case StrV:
				return IntV(len(c))
			}
			in.limit("len of %T", get(com.Args[0]))
		case "cap":
			if c, ok := get(com.Args[0]).(Slice); ok {
				return IntV(c.cp)
			}
		case "copy":
			d, ok1 := get(com.Args[0]).(Slice)
			s, ok2 := get(com.Args[1]).(Slice)
			if !ok1 || !ok2 {
				in.limit("copy of non-slices")
			}
			n := d.ln
			if s.ln < n {
				n = s.ln
			}
			tmp := make([]Value, n)
			copy(tmp, s.o.s[s.off:s.off+n])
			copy(d.o.s[d.off:d.off+n], tmp)
			return IntV(n)
		}
		in.limit("builtin %s", bi.Name())
	}
	var args []Value
	for _, a := range com.Args {
		args = append(args, get(a))
	}
	if sc := com.StaticCallee(); sc != nil {
		// only functions of the package under verification are executed from their SSA
		if len(sc.Blocks) == 0 || sc.Package() != in.m.P.SSA {
			return in.external(sc, args, role)
		}
		var bind []Value
		if mc, ok := com.Value.(*ssa.MakeClosure); ok {
			for _, bv := range mc.Bindings {
				bind = append(bind, get(bv))
			}
		}
		return in.callFn(sc, args, bind, role)
	}
	// dynamic call: a value of type Operator (or another function value)
	switch f := get(com.Value).(type) {
	case Closure:
		r := f.role
		if r == "" {
			r = role
		}
		return in.callFn(f.fn, args, f.bind, r)
	case OpRef:
		if len(args) != 2 {
			in.limit("operator call with %d arguments", len(args))
		}
		ps, ok := args[1].(Slice)
		if !ok {
			in.limit("operator parameters are not a slice")
		}
		var at []*T
		for i := 0; i < ps.ln; i++ {
			iv, ok := ps.o.s[ps.off+i].(Iface)
			if !ok || iv.T == nil {
				in.limit("operator parameter %d is not a Val", i)
			}
			at = append(at, iv.T)
		}
		v, e := in.applyOp(f, at)
		return Tuple{Iface{T: v, Sort: SVal}, Iface{T: e, Sort: SErr}}
	case NilV:
		in.panicPath("call of nil function at %s (%s)", in.m.P.PosString(x.Pos()), in.m.P.ExprAt(x.Parent(), x.Pos(), nil))
	}
	in.limit("dynamic call of %T", get(com.Value))
	return nil
}

// applyOp: built-ins by their direct terms, custom operators by oracles (+ trace).
func (in *interp) applyOp(f OpRef, a []*T) (*T, *T) {
	switch f.kind {
	case "builtin":
		return OpTerm(f.name, a)
	case "custom":
		v, e := CustomTerms(f.name, a)
		in.run.trace = append(in.run.trace, TraceRec{Kind: "call", Name: f.name, Args: a, V: v, E: e})
		return v, e
	}
	in.panicPath("node.operator of %q is not the operator registered under that name (binding not recognised by the driver)", f.name)
	return nil, nil
}

// CustomTerms: the oracle of a registered operator: uninterpreted functions of
// the argument vector; `g` (declared stateless) has the fixed meaning GTerm.
func CustomTerms(name string, a []*T) (*T, *T) {
	if name == Alpha.Stateless {
		return GTerm(a)
	}
	suffix := fmt.Sprintf("%s_%d", name, len(a))
	if len(a) == 0 {
		return Sym("cv_"+suffix, SVal), Sym("ce_"+suffix, SErr)
	}
	return App("cv_"+suffix, SVal, a...), App("ce_"+suffix, SErr, a...)
}

// external: calls that leave the package. Only error constructors occur
// (fmt.Errorf in the `if` closure); the result is an opaque error identity that
// is a function of the operator role and the Val arguments.
func (in *interp) external(fn *ssa.Function, args []Value, role string) Value {
	name := fn.String()
	if name == "fmt.Errorf" || name == "errors.New" {
		var vs []*T
		var collect func(v Value)
		collect = func(v Value) {
			switch c := v.(type) {
			case Iface:
				if c.T != nil && c.Sort == SVal {
					vs = append(vs, c.T)
				}
			case Slice:
				for i := 0; i < c.ln; i++ {
					collect(c.o.s[c.off+i])
				}
			}
		}
		for _, a := range args {
			collect(a)
		}
		fam := role
		if fam == "" {
			fam = "ext"
		}
		return Iface{T: berr(fam, vs), Sort: SErr}
	}
	in.limit("call of external function %s", name)
	return nil
}
