// bounded-dev: development driver of the bounded tier.
//
//	bounded-dev run <PROP> [-tier quick|thorough] [-sel file.json | -claims] [-v] [-fail N]
//	bounded-dev enum [-sel file.json] [-tier t]        print the enumerated sources
//	bounded-dev opterms <name> <arity>                 print the direct terms of an operator
//
// VERIF_REPO / VERIF_DIR / VERIF_WORKERS / VERIF_SEED are honoured (core.EnvFromOS).
package main

import (
	"encoding/json"
	"flag"
	"fmt"
	"os"
	"sort"
	"strconv"
	"time"

	"govc/internal/bounded"
	"govc/internal/core"
	"govc/internal/load"
)

func loadSel(env *core.Env, prop, selFile string) json.RawMessage {
	if selFile != "" {
		b, err := os.ReadFile(selFile)
		if err != nil {
			fmt.Fprintln(os.Stderr, err)
			os.Exit(2)
		}
		return b
	}
	cf, err := core.LoadClaims(env.Verif, prop)
	if err != nil {
		fmt.Fprintln(os.Stderr, "no claims file and no -sel:", err)
		os.Exit(2)
	}
	return cf.Engines["bounded"]
}

func main() {
	if len(os.Args) < 2 {
		fmt.Fprintln(os.Stderr, "usage: bounded-dev run|enum|opterms ...")
		os.Exit(2)
	}
	switch os.Args[1] {
	case "opterms":
		ar, _ := strconv.Atoi(os.Args[3])
		d, v, e := bounded.OpTermsSMT(os.Args[2], ar)
		fmt.Println(d)
		fmt.Println("; value:", v)
		fmt.Println("; error:", e)
	case "enum":
		fs := flag.NewFlagSet("enum", flag.ExitOnError)
		selFile := fs.String("sel", "", "selection JSON file")
		tier := fs.String("tier", "quick", "tier")
		prop := fs.String("prop", "C01", "property (claims file) when no -sel")
		fs.Parse(os.Args[2:])
		env := core.EnvFromOS(*prop)
		env.SetTier(*tier)
		var s bounded.Selection
		if err := json.Unmarshal(loadSel(env, *prop, *selFile), &s); err != nil {
			fmt.Fprintln(os.Stderr, err)
			os.Exit(2)
		}
		ts := s.Quick
		if *tier == "thorough" {
			ts = s.Thorough
		}
		srcs, info := bounded.Enumerate(ts.Enum, env.Seed)
		for _, x := range srcs {
			fmt.Println(x)
		}
		b, _ := json.Marshal(info)
		fmt.Fprintln(os.Stderr, string(b))
	case "run":
		fs := flag.NewFlagSet("run", flag.ExitOnError)
		selFile := fs.String("sel", "", "selection JSON file (default: claims/<PROP>.json engines.bounded)")
		tier := fs.String("tier", "quick", "tier")
		verbose := fs.Bool("v", false, "verbose")
		nfail := fs.Int("fail", 10, "failed obligations to print")
		keep := fs.Bool("keep", false, "keep the work dir")
		if len(os.Args) < 3 {
			fmt.Fprintln(os.Stderr, "usage: bounded-dev run <PROP> ...")
			os.Exit(2)
		}
		prop := os.Args[2]
		fs.Parse(os.Args[3:])
		env := core.EnvFromOS(prop + "-dev")
		env.SetTier(*tier)
		env.Verbose = *verbose
		if os.Getenv("VERIF_WORKERS") == "" {
			env.Workers = 16
		}
		sel := loadSel(env, prop, *selFile)
		os.RemoveAll(env.Work)
		os.MkdirAll(env.Work, 0o755)
		if !*keep {
			defer os.RemoveAll(env.Work)
		}
		t0 := time.Now()
		p, err := load.Load(env.Repo)
		if err != nil {
			fmt.Fprintln(os.Stderr, "load:", err)
			os.Exit(2)
		}
		tl := time.Since(t0)
		res, err := bounded.Run(env, p, prop+"-dev", sel)
		if err != nil {
			fmt.Fprintln(os.Stderr, "engine:", err)
			os.Exit(2)
		}
		by := map[string]int{}
		kinds := map[string]map[string]int{}
		for _, o := range res.Obls {
			by[string(o.Status)]++
			if kinds[o.Kind] == nil {
				kinds[o.Kind] = map[string]int{}
			}
			kinds[o.Kind][string(o.Status)]++
		}
		b, _ := json.MarshalIndent(res.Extra["bounded"], "", " ")
		fmt.Println(string(b))
		var ks []string
		for k := range kinds {
			ks = append(ks, k)
		}
		sort.Strings(ks)
		for _, k := range ks {
			fmt.Printf("%-28s %v\n", k, kinds[k])
		}
		fmt.Printf("load %.1fs total %.1fs obligations %d %v\n", tl.Seconds(), time.Since(t0).Seconds(), len(res.Obls), by)
		n := 0
		nconf, nunconf := 0, 0
		for _, o := range res.Obls {
			if o.Status == core.Refuted && o.Replay != nil {
				if o.Replay.Confirmed {
					nconf++
				} else {
					nunconf++
				}
			}
		}
		if nconf+nunconf > 0 {
			fmt.Printf("replays: %d confirmed, %d NOT confirmed\n", nconf, nunconf)
		}
		for _, o := range res.Obls {
			if o.Status == core.Discharged {
				continue
			}
			n++
			if n > *nfail {
				continue
			}
			fmt.Printf("FAILED %s [%s] %s\n   detail: %s\n   witness: %s\n", o.Name, o.Status, o.Solver, o.Detail, o.Witness)
			if o.Replay != nil {
				fmt.Printf("   replay confirmed=%v: %s\n", o.Replay.Confirmed, o.Replay.Output)
			} else if o.Output != "" {
				fmt.Printf("   output: %s\n", o.Output)
			}
		}
		if n > 0 {
			fmt.Printf("%d obligations not discharged\n", n)
			os.Exit(1)
		}
	}
}
