package bounded

// C09: boundary programs. Generated on the engine side (the driver only
// compiles the text): operators with 126/127/128 operands before and after
// flattening, nesting depths that put maxStackSize at 8/9/16/17, node counts
// around 32767 and around the halved limit with ReportEvent.

import (
	"encoding/json"
	"fmt"
	"strings"

	"govc/internal/core"
)

// Boundary is one generated program with what the property expects of it.
type Boundary struct {
	Name   string // stable name used in obligation names, e.g. wide:127
	Src    *Src
	Nodes  int
	Expect string // value of Eval under the fixed binding b*=true, i*=1 (as the driver prints it)
	// CompileOK says whether Compile must succeed under (mask, ev); otherwise it must return an error.
	CompileOK func(mask int, ev bool) bool
	Stack     int // expected maxStackSize (0: not checked)
}

func leafN(n int, names []string) []*Src {
	var out []*Src
	for i := 0; i < n; i++ {
		out = append(out, L(names[i%len(names)]))
	}
	return out
}

// sizedTree builds a tree of exactly n nodes (n == 1 or n >= 3) of `+` over the
// leaf i0; every operator has between 2 and 127 operands.
func sizedTree(n int) *Src {
	if n == 1 {
		return L("i0")
	}
	if n < 3 {
		panic("sizedTree: size 2 is impossible")
	}
	rest := n - 1
	t := &Src{Op: "+"}
	if rest <= 127 {
		t.Kids = leafN(rest, []string{"i0"})
		return t
	}
	c := 127
	if rest/127 < 3 {
		c = rest / 3
	}
	base, extra := rest/c, rest%c
	for i := 0; i < c; i++ {
		s := base
		if i < extra {
			s++
		}
		t.Kids = append(t.Kids, sizedTree(s))
	}
	return t
}

func countLeaves(s *Src) int {
	if s.IsLeaf() {
		return 1
	}
	n := 0
	for _, k := range s.Kids {
		n += countLeaves(k)
	}
	return n
}

// Boundaries returns the boundary family of the tier.
func Boundaries(thorough bool) []*Boundary {
	var out []*Boundary
	always := func(int, bool) bool { return true }
	ints, bools := []string{"i0", "i1", "i2"}, []string{"b0", "b1", "b2"}
	for _, n := range []int{126, 127, 128} {
		n := n
		out = append(out, &Boundary{Name: fmt.Sprintf("wide:%d", n), Src: N("+", leafN(n, ints)...), Expect: fmt.Sprintf("value: %d", n),
			CompileOK: func(int, bool) bool { return n <= 127 }})
		// constant operands: ConstantFolding removes the operator before the (post-optimisation) check
		out = append(out, &Boundary{Name: fmt.Sprintf("wideconst:%d", n), Src: N("+", leafN(n, []string{"1"})...), Expect: fmt.Sprintf("value: %d", n),
			CompileOK: func(mask int, _ bool) bool { return n <= 127 || mask&1 != 0 }})
		out = append(out, &Boundary{Name: fmt.Sprintf("wideand:%d", n), Src: N("and", leafN(n, bools)...), Expect: "value: true",
			CompileOK: func(int, bool) bool { return n <= 127 }})
		// (and (and ...) (and ...)): n operands after flattening
		h := n / 2
		out = append(out, &Boundary{Name: fmt.Sprintf("nestand:%d", n), Src: N("and", N("and", leafN(h, bools)...), N("and", leafN(n-h, bools)...)), Expect: "value: true",
			CompileOK: func(mask int, _ bool) bool { return mask&2 == 0 || n <= 127 }})
	}
	for _, d := range []int{7, 8, 15, 16} {
		// (+ i0 (+ i0 ... (+ i0 1))): stack height d+1
		t := N("+", L("i0"), L("1"))
		for i := 1; i < d; i++ {
			t = N("+", L("i0"), t)
		}
		out = append(out, &Boundary{Name: fmt.Sprintf("deep:%d", d), Src: t, Expect: fmt.Sprintf("value: %d", d+1), CompileOK: always, Stack: d + 1})
		// boolean variant: (and b0 (or b1 (and b2 ...)))
		bt := N("and", L("b0"), L("b1"))
		for i := 1; i < d; i++ {
			op := "or"
			if i%2 == 0 {
				op = "and"
			}
			bt = N(op, L(bools[i%3]), bt)
		}
		out = append(out, &Boundary{Name: fmt.Sprintf("deepbool:%d", d), Src: bt, Expect: "value: true", CompileOK: always})
	}
	sizes := []int{16382, 16383, 16384, 16385, 32766, 32767, 32768}
	if !thorough {
		sizes = []int{16383, 16384, 32767, 32768}
	}
	for _, n := range sizes {
		n := n
		t := sizedTree(n)
		out = append(out, &Boundary{Name: fmt.Sprintf("nodes:%d", n), Src: t, Expect: fmt.Sprintf("value: %d", countLeaves(t)),
			CompileOK: func(_ int, ev bool) bool {
				if ev {
					return 2*n <= 32767
				}
				return n <= 32767
			}})
	}
	for _, b := range out {
		b.Nodes = b.Src.Size()
	}
	return out
}

// BoundaryObls: concrete obligations of one boundary program under one configuration.
//
//	boundary-compile: Compile succeeds exactly when the limits allow it, otherwise returns an error; it never panics
//	boundary-run    : one concrete Eval of the compiled program (b*=true, i*=1) returns the reference value
func (cx *Checker) BoundaryObls(c *Case, b *Boundary) []*core.Obl {
	oc := cx.newObl("boundary-compile", c)
	p := c.Prog
	want := b.CompileOK(c.Job.Mask, c.Job.Ev)
	setExtra := func(o *core.Obl, k, v string) {
		var spec ReplaySpec
		json.Unmarshal([]byte(o.ReplayData["spec"]), &spec)
		if spec.Extra == nil {
			spec.Extra = map[string]string{}
		}
		spec.Extra[k] = v
		bb, _ := json.Marshal(spec)
		o.ReplayData["spec"] = string(bb)
	}
	setExtra(oc, "expect", map[bool]string{true: "ok", false: "error"}[want])
	switch {
	case p == nil:
		oc.Status = core.Unknown
		oc.Output = "driver returned no program"
		return []*core.Obl{oc}
	case p.Panic != "":
		oc.Status = core.Refuted
		oc.Detail = "Compile panics: " + p.Panic
		oc.Witness = fmt.Sprintf("src=%s (%d source nodes) cfg=%s: Compile panics: %s", b.Name, b.Nodes, c.Cfg, p.Panic)
		return []*core.Obl{oc}
	case want && p.Err != "":
		oc.Status = core.Refuted
		oc.Detail = "Compile rejects a program within the limits: " + p.Err
		oc.Witness = fmt.Sprintf("src=%s (%d source nodes) cfg=%s: %s", b.Name, b.Nodes, c.Cfg, p.Err)
		return []*core.Obl{oc}
	case !want && p.Err == "":
		oc.Status = core.Refuted
		oc.Detail = fmt.Sprintf("Compile accepts a program beyond the limits (%d nodes compiled)", p.NNodes)
		oc.Witness = fmt.Sprintf("src=%s (%d source nodes) cfg=%s: compiled to %d nodes", b.Name, b.Nodes, c.Cfg, p.NNodes)
		return []*core.Obl{oc}
	}
	discharge(oc, "driver")
	if p.Err != "" {
		oc.Detail = "rejected as expected: " + trunc(p.Err, 80)
		return []*core.Obl{oc}
	}
	oc.Detail = fmt.Sprintf("%d nodes, maxStackSize %d", p.NNodes, p.MaxStack)
	out := []*core.Obl{oc, cx.WFObl(c)}
	or := cx.newObl("boundary-run", c)
	setExtra(or, "expect", b.Expect)
	or.Detail = fmt.Sprintf("concrete Eval: %s (reference %s), maxStackSize %d", p.RunRes, b.Expect, p.MaxStack)
	if p.RunRes != b.Expect || strings.HasPrefix(p.RunRes, "PANIC") {
		or.Status = core.Refuted
		or.Witness = fmt.Sprintf("src=%s cfg=%s b*=true i*=1: real %s, reference %s", b.Name, c.Cfg, p.RunRes, b.Expect)
	} else {
		discharge(or, "driver")
	}
	out = append(out, or)
	if b.Stack > 0 && c.Job.Mask&4 == 0 {
		os := cx.newObl("boundary-stack", c)
		os.Detail = fmt.Sprintf("maxStackSize %d, generator aimed at %d", p.MaxStack, b.Stack)
		if int(p.MaxStack) != b.Stack {
			os.Status = core.Unknown
			os.Output = "the generated program does not hit the intended stack class"
		} else {
			discharge(os, "driver")
		}
		out = append(out, os)
	}
	return out
}
