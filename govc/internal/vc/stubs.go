package vc

import (
	"fmt"
	"go/types"
	"sort"
	"strings"

	"golang.org/x/tools/go/ssa"
)

// Stub contracts for the standard library (DESIGN 2.2). They are assumptions,
// listed in every evidence file under trusted_base.
type stub struct {
	doc string
	f   func(fr *frame, x *ssa.Call, a []*Term, st *state) []*Term
}

func strT() types.Type  { return types.Typ[types.String] }
func boolT() types.Type { return types.Typ[types.Bool] }
func intT() types.Type  { return types.Typ[types.Int] }
func errT() types.Type  { return types.Universe.Lookup("error").Type() }

func (fr *frame) newErr(tag string) *Term {
	id := fr.g.fresh("err_"+tag, "Int")
	return &Term{S: "(EErr " + id + ")", T: errT()}
}

func (fr *frame) ufun(name string, sig string, args ...string) string {
	fr.g.declareFun(name, sig)
	if len(args) == 0 {
		return name
	}
	return "(" + name + " " + strings.Join(args, " ") + ")"
}

var stubs map[string]stub

func init() {
	stubs = map[string]stub{
		"errors.New": {"returns a fresh non-nil error", func(fr *frame, x *ssa.Call, a []*Term, st *state) []*Term {
			return []*Term{fr.newErr("new")}
		}},
		"fmt.Errorf": {"returns a fresh non-nil error (wrapping is not interpreted)", func(fr *frame, x *ssa.Call, a []*Term, st *state) []*Term {
			return []*Term{fr.newErr("errorf")}
		}},
		"fmt.Sprintf": {"returns some string (uninterpreted)", func(fr *frame, x *ssa.Call, a []*Term, st *state) []*Term {
			return []*Term{{S: fr.g.fresh("sprintf", "Int"), T: strT()}}
		}},
		"fmt.Sprint": {"returns some string (uninterpreted)", func(fr *frame, x *ssa.Call, a []*Term, st *state) []*Term {
			return []*Term{{S: fr.g.fresh("sprint", "Int"), T: strT()}}
		}},
		"strconv.ParseInt": {"(parseIntVal(s), err) with err == nil iff parseIntOk(s) for base 10 / 64 bits (any other base or width: the unrelated functions parseIntValB(s, base, bits) / parseIntOkB); value within int64", func(fr *frame, x *ssa.Call, a []*Term, st *state) []*Term {
			v := fr.ufun("parseIntVal", "(Int) Int", a[0].S)
			ok := fr.ufun("parseIntOk", "(Int) Bool", a[0].S)
			// the decimal 64-bit vocabulary only stands for calls that really ask for base 10 and 64 bits
			cb, okb := constUint(x.Common().Args[1])
			cw, okw := constUint(x.Common().Args[2])
			if !(okb && okw && cb == 10 && cw == 64) {
				v = fr.ufun("parseIntValB", "(Int Int Int) Int", a[0].S+" "+a[1].S+" "+a[2].S)
				ok = fr.ufun("parseIntOkB", "(Int Int Int) Bool", a[0].S+" "+a[1].S+" "+a[2].S)
			}
			fr.g.assert("(inS64 " + v + ")")
			e := fr.newErr("parseint")
			return []*Term{{S: v, T: types.Typ[types.Int64]}, {S: "(ite " + ok + " ENil " + e.S + ")", T: errT()}}
		}},
		"strconv.ParseBool": {"(parseBoolVal(s), err) with err == nil iff parseBoolOk(s)", func(fr *frame, x *ssa.Call, a []*Term, st *state) []*Term {
			v := fr.ufun("parseBoolVal", "(Int) Bool", a[0].S)
			ok := fr.ufun("parseBoolOk", "(Int) Bool", a[0].S)
			e := fr.newErr("parsebool")
			return []*Term{{S: v, T: boolT()}, {S: "(ite " + ok + " ENil " + e.S + ")", T: errT()}}
		}},
		"strconv.Itoa": {"itoa(n) (uninterpreted, functional)", func(fr *frame, x *ssa.Call, a []*Term, st *state) []*Term {
			return []*Term{{S: fr.ufun("itoa", "(Int) Int", a[0].S), T: strT()}}
		}},
		"strconv.FormatInt": {"itoa(n) for base 10 (uninterpreted, functional)", func(fr *frame, x *ssa.Call, a []*Term, st *state) []*Term {
			return []*Term{{S: fr.ufun("itoa", "(Int) Int", a[0].S), T: strT()}}
		}},
		"strconv.Quote": {"quote(s) (uninterpreted, functional)", func(fr *frame, x *ssa.Call, a []*Term, st *state) []*Term {
			return []*Term{{S: fr.ufun("quote", "(Int) Int", a[0].S), T: strT()}}
		}},
		"strings.Split": {"fresh slice of splitLen(s,sep) >= 1 strings splitElem(s,sep,i)", func(fr *frame, x *ssa.Call, a []*Term, st *state) []*Term {
			g := fr.g
			ln := fr.ufun("splitLen", "(Int Int) Int", a[0].S, a[1].S)
			arr := fr.ufun("splitArr", "(Int Int) (Array Int Int)", a[0].S, a[1].S)
			g.assert("(and (>= " + ln + " 1) (<= " + ln + " 1152921504606846975))")
			ad := g.allocAddr(st)
			old := g.base(st, "E_string", "Int", 2, false)
			nv := g.newVersion(st, "E_string")
			g.assert("(= " + nv + " (store " + old + " " + ad + " " + arr + "))")
			return []*Term{{S: "(mk_slice " + ad + " 0 " + ln + " " + ln + ")", T: x.Type()}}
		}},
		"strings.TrimSpace": {"trimSpace(s) (uninterpreted, functional)", func(fr *frame, x *ssa.Call, a []*Term, st *state) []*Term {
			return []*Term{{S: fr.ufun("trimSpace", "(Int) Int", a[0].S), T: strT()}}
		}},
		"strings.TrimPrefix": {"trimPrefix(s,p) (uninterpreted, functional)", func(fr *frame, x *ssa.Call, a []*Term, st *state) []*Term {
			return []*Term{{S: fr.ufun("trimPrefix", "(Int Int) Int", a[0].S, a[1].S), T: strT()}}
		}},
		"strings.HasPrefix": {"hasPrefix(s,p) (uninterpreted; implies len(s) >= len(p))", func(fr *frame, x *ssa.Call, a []*Term, st *state) []*Term {
			t := fr.ufun("hasPrefix", "(Int Int) Bool", a[0].S, a[1].S)
			fr.g.assert("(=> " + t + " (>= (strlen " + a[0].S + ") (strlen " + a[1].S + ")))")
			return []*Term{{S: t, T: boolT()}}
		}},
		"strings.ContainsRune": {"containsRune(s,r) (uninterpreted)", func(fr *frame, x *ssa.Call, a []*Term, st *state) []*Term {
			return []*Term{{S: fr.ufun("containsRune", "(Int Int) Bool", a[0].S, a[1].S), T: boolT()}}
		}},
		"strings.ContainsAny": {"containsAny(s,chars) (uninterpreted)", func(fr *frame, x *ssa.Call, a []*Term, st *state) []*Term {
			return []*Term{{S: fr.ufun("containsAny", "(Int Int) Bool", a[0].S, a[1].S), T: boolT()}}
		}},
		"strings.Repeat": {"some string", func(fr *frame, x *ssa.Call, a []*Term, st *state) []*Term {
			return []*Term{{S: fr.g.fresh("repeat", "Int"), T: strT()}}
		}},
		"strings.Join": {"joinStr(content of the slice, sep) (uninterpreted, functional in the contents)", func(fr *frame, x *ssa.Call, a []*Term, st *state) []*Term {
			g := fr.g
			old := g.base(st, "E_string", "Int", 2, false)
			t := fr.ufun("joinStr", "((Array Int Int) Int Int Int) Int", "(select "+old+" (s_arr "+a[0].S+"))", "(s_off "+a[0].S+")", "(s_len "+a[0].S+")", a[1].S)
			return []*Term{{S: t, T: strT()}}
		}},
		"unicode.IsSpace": {"isSpace(r) (uninterpreted predicate)", func(fr *frame, x *ssa.Call, a []*Term, st *state) []*Term {
			return []*Term{{S: fr.ufun("isSpace", "(Int) Bool", a[0].S), T: boolT()}}
		}},
		"unicode.IsLetter": {"isLetter(r) (uninterpreted predicate)", func(fr *frame, x *ssa.Call, a []*Term, st *state) []*Term {
			return []*Term{{S: fr.ufun("isLetter", "(Int) Bool", a[0].S), T: boolT()}}
		}},
		"unicode.IsNumber": {"isNumber(r) (uninterpreted predicate)", func(fr *frame, x *ssa.Call, a []*Term, st *state) []*Term {
			return []*Term{{S: fr.ufun("isNumber", "(Int) Bool", a[0].S), T: boolT()}}
		}},
		"math.Max": {"max over the reals (NaN not modelled)", func(fr *frame, x *ssa.Call, a []*Term, st *state) []*Term {
			return []*Term{{S: "(ite (>= " + a[0].S + " " + a[1].S + ") " + a[0].S + " " + a[1].S + ")", T: types.Typ[types.Float64]}}
		}},
		"math.Min": {"min over the reals (NaN not modelled)", func(fr *frame, x *ssa.Call, a []*Term, st *state) []*Term {
			return []*Term{{S: "(ite (<= " + a[0].S + " " + a[1].S + ") " + a[0].S + " " + a[1].S + ")", T: types.Typ[types.Float64]}}
		}},
		"time.Parse": {"(t, err) with timeUnix(t) == parseUnix(layout, v), err == nil iff parseTimeOk(layout, v)", func(fr *frame, x *ssa.Call, a []*Term, st *state) []*Term {
			g := fr.g
			tt := x.Common().Signature().Results().At(0).Type()
			ts := g.U.sortOf(tt)
			tv := g.fresh("time", ts)
			g.declareFun("timeUnix", "("+ts+") Int")
			g.assert("(= (timeUnix " + tv + ") " + fr.ufun("parseUnix", "(Int Int) Int", a[0].S, a[1].S) + ")")
			g.assert("(inS64 (timeUnix " + tv + "))")
			ok := fr.ufun("parseTimeOk", "(Int Int) Bool", a[0].S, a[1].S)
			e := fr.newErr("timeparse")
			return []*Term{{S: tv, T: tt}, {S: "(ite " + ok + " ENil " + e.S + ")", T: errT()}}
		}},
		"(time.Time).Unix": {"timeUnix(t)", func(fr *frame, x *ssa.Call, a []*Term, st *state) []*Term {
			g := fr.g
			ts := g.U.sortOf(x.Common().Args[0].Type())
			g.declareFun("timeUnix", "("+ts+") Int")
			g.assert("(inS64 (timeUnix " + a[0].S + "))")
			return []*Term{{S: "(timeUnix " + a[0].S + ")", T: types.Typ[types.Int64]}}
		}},
		"(*math/rand.Rand).Intn": {"requires n > 0; result in [0, n), otherwise arbitrary", func(fr *frame, x *ssa.Call, a []*Term, st *state) []*Term {
			g := fr.g
			g.safety(fr, st, "intn-arg", fr.srcAnchor(x.Pos(), isCall, "Intn"), x.Pos(), "(> "+a[1].S+" 0)")
			r := g.fresh("intn", "Int")
			g.assert("(and (<= 0 " + r + ") (< " + r + " " + a[1].S + "))")
			return []*Term{{S: r, T: intT()}}
		}},
	}
}

// StubDocs lists the stub contracts (for the evidence).
func StubDocs(used map[string]bool) []string {
	var out []string
	for k := range used {
		if s, ok := stubs[k]; ok {
			out = append(out, "stub "+k+": "+s.doc)
		} else {
			out = append(out, "stub "+k)
		}
	}
	sort.Strings(out)
	return out
}

func (fr *frame) external(x *ssa.Call, fn *ssa.Function, args []*Term, st *state) {
	g := fr.g
	name := fn.String()
	if s, ok := stubs[name]; ok {
		g.Eng.usedStubs[name] = true
		vals := s.f(fr, x, args, st)
		fr.setResult(x, vals)
		return
	}
	if fr.externalSpecial(x, fn, name, args, st) {
		g.Eng.usedStubs[name] = true
		return
	}
	if valueOnlySignature(fn.Signature) {
		// an unknown library function over value-typed arguments (numbers, strings, interfaces): arbitrary well-typed
		// results (an interface or pointer result may be nil), no effect on modelled memory.  Harmless uses thereby do
		// not stop the proof; whatever the proof needs about the result has to come from a stub contract.
		g.usedAssumptions["external function "+name+" has no stub contract: its results are arbitrary well-typed values (possibly nil) and it does not touch modelled memory"] = true
		fr.setResult(x, fr.freshResults(x, fn.Signature, st, "ext"))
		return
	}
	g.rejectf("call of external function %s without a stub contract", name)
	var vals []*Term
	sig := fn.Signature
	for i := 0; i < sig.Results().Len(); i++ {
		vals = append(vals, &Term{S: g.zero(sig.Results().At(i).Type()), T: sig.Results().At(i).Type()})
	}
	fr.setResult(x, vals)
}

// externalSpecial handles stubs that need more than argument terms (strings.Builder, sort.SliceStable).
func (fr *frame) externalSpecial(x *ssa.Call, fn *ssa.Function, name string, args []*Term, st *state) bool {
	g := fr.g
	sbBase := func() string { return g.base(st, "SB.content", "Int", 1, false) }
	switch name {
	case "(*strings.Builder).WriteString", "(*strings.Builder).WriteRune", "(*strings.Builder).WriteByte":
		old := sbBase()
		add := args[1].S
		if name != "(*strings.Builder).WriteString" {
			g.declareFun("strOfRune", "(Int) Int")
			add = "(strOfRune " + args[1].S + ")"
		}
		nv := g.newVersion(st, "SB.content")
		g.assert("(= " + nv + " (store " + old + " " + args[0].S + " (strcat (select " + old + " " + args[0].S + ") " + add + ")))")
		var vals []*Term
		sig := fn.Signature
		for i := 0; i < sig.Results().Len(); i++ {
			rt := sig.Results().At(i).Type()
			if isErrorType(rt) {
				vals = append(vals, &Term{S: "ENil", T: rt})
			} else {
				vals = append(vals, fr.symbolic("sbw", rt, st))
			}
		}
		fr.setResult(x, vals)
		return true
	case "(*strings.Builder).String":
		fr.setResult(x, []*Term{{S: "(select " + sbBase() + " " + args[0].S + ")", T: strT()}})
		return true
	case "(*strings.Builder).Grow":
		g.safety(fr, st, "builder-grow", fr.srcAnchor(x.Pos(), isCall, "Grow"), x.Pos(), "(>= "+args[1].S+" 0)")
		fr.setResult(x, nil)
		return true
	case "sort.SliceStable":
		return fr.sortSliceStable(x, args, st)
	}
	return false
}

// sort.SliceStable(slice, less): the elements of exactly that backing range are permuted.
// Stub: the new content is perm-related to the old one through an uninterpreted bijection.
func (fr *frame) sortSliceStable(x *ssa.Call, args []*Term, st *state) bool {
	g := fr.g
	v := x.Common().Args[0]
	mi, ok := v.(*ssa.MakeInterface)
	if !ok {
		return false
	}
	slt, ok := mi.X.Type().Underlying().(*types.Slice)
	if !ok {
		return false
	}
	s := fr.val(mi.X)
	el := slt.Elem()
	lfs := g.leaves("E_"+typeKey(el), el)
	if len(lfs) != 1 {
		return false
	}
	ls := g.leafSort(el)
	base := lfs[0].name
	old := g.base(st, base, ls, 2, false)
	g.nfresh++
	perm := fmt.Sprintf("perm!%d", g.nfresh)
	inv := fmt.Sprintf("permInv!%d", g.nfresh)
	g.declareFun(perm, "(Int) Int")
	g.declareFun(inv, "(Int) Int")
	n := "(s_len " + s.S + ")"
	A := g.fresh("sorted_A", "(Array Int "+ls+")")
	nv := g.newVersion(st, base)
	g.assert("(= " + nv + " (store " + old + " (s_arr " + s.S + ") " + A + "))")
	off := "(s_off " + s.S + ")"
	oldA := "(select " + old + " (s_arr " + s.S + "))"
	g.assert("(forall ((j Int)) (! (=> (and (<= 0 j) (< j " + n + ")) (and (<= 0 (" + perm + " j)) (< (" + perm + " j) " + n + ") (= (" + inv + " (" + perm + " j)) j) (= (select " + A + " (+ " + off + " j)) (select " + oldA + " (+ " + off + " (" + perm + " j)))))) :pattern ((" + perm + " j))))")
	// the same fact over the absolute index (pattern: a plain select), for goals about an arbitrary element of the sorted range
	g.assert("(forall ((j Int)) (! (=> (and (<= " + off + " j) (< j (+ " + off + " " + n + "))) (and (<= 0 (" + perm + " (- j " + off + "))) (< (" + perm + " (- j " + off + ")) " + n + ") (= (select " + A + " j) (select " + oldA + " (+ " + off + " (" + perm + " (- j " + off + "))))))) :pattern ((select " + A + " j))))")
	g.assert("(forall ((j Int)) (! (=> (and (<= 0 j) (< j " + n + ")) (and (<= 0 (" + inv + " j)) (< (" + inv + " j) " + n + ") (= (" + perm + " (" + inv + " j)) j))) :pattern ((" + inv + " j))))")
	g.assert("(forall ((j Int)) (! (=> (or (< j " + off + ") (>= j (+ " + off + " " + n + "))) (= (select " + A + " j) (select " + oldA + " j))) :pattern ((select " + A + " j))))")
	fr.sortPerm = perm
	fr.setResult(x, nil)
	return true
}

// valueOnlySignature: no parameter can give the callee access to modelled memory (no pointers, slices, maps,
// functions, channels - directly or inside structs/arrays), and every result has a modelled sort.
func valueOnlySignature(sig *types.Signature) bool {
	var ok func(t types.Type, depth int) bool
	ok = func(t types.Type, depth int) bool {
		if depth > 4 {
			return false
		}
		switch u := t.Underlying().(type) {
		case *types.Basic:
			return u.Kind() != types.UnsafePointer
		case *types.Interface:
			return true
		case *types.Struct:
			for i := 0; i < u.NumFields(); i++ {
				if !ok(u.Field(i).Type(), depth+1) {
					return false
				}
			}
			return true
		case *types.Array:
			return ok(u.Elem(), depth+1)
		}
		return false
	}
	if sig.Recv() != nil && !ok(sig.Recv().Type(), 0) {
		return false
	}
	for i := 0; i < sig.Params().Len(); i++ {
		if !ok(sig.Params().At(i).Type(), 0) {
			return false
		}
	}
	return !sig.Variadic()
}
