#!/bin/sh
# No-false-alarm corpus: behaviour-preserving edits (renamed locals / parameters, reordered independent statements,
# changed message texts) applied to a scratch copy; every listed property check must still exit 0.
cd "$(dirname "$0")/.." || exit 2
export GOFLAGS=-mod=mod GOPROXY=off GOSUMDB=off GOTOOLCHAIN=local
d=$(mktemp -d /tmp/verif-harmless.XXXXXX); cp /repo/*.go /repo/go.mod /repo/go.sum $d/
python3 - $d <<'PY'
import re,sys
d=sys.argv[1]
def sub(f, pairs):
    p=d+'/'+f; s=open(p).read()
    for a,b in pairs: s=re.sub(a,b,s)
    open(p,'w').write(s)
def ren(f, fn, old, new):
    p=d+'/'+f; s=open(p).read()
    i=s.index('func '+fn+'('); j=s.index('\nfunc ', i+5)
    s=s[:i]+re.sub(r'(?<![.\w])'+old+r'\b', new, s[i:j])+s[j:]
    open(p,'w').write(s)
# engine.go: locals of Eval / TryEval
sub('engine.go', [(r'(?<![.\w])curt\b','cur'),(r'(?<![.\w])param2\b','pair'),(r'(?<![.\w])cCnt\b','nOperands')])
# operator.go: parameter name of every operator
sub('operator.go', [(r'(?<![.\w])params\b','ps')])
# compiler.go: parameters of copyConfig / cost functions, locals of the stack pass
ren('compiler.go','copyConfig','dst','to'); ren('compiler.go','copyConfig','src','from')
ren('compiler.go','calculateNodeCosts','root','nd'); ren('compiler.go','optimizeReordering','root','nd')
ren('compiler.go','calAndSetStackSize','maxStackSize','high'); ren('compiler.go','optimizeFastEvaluation','root','nd')
# session 3: locals of the passes and helpers put under contract
ren('compiler.go','calAndSetShortCircuit','f','jump'); ren('compiler.go','calAndSetShortCircuit','pIdx','parIdx'); ren('compiler.go','calAndSetShortCircuit','flag','bits')
ren('compiler.go','optimizeReduceNesting','children','flat'); ren('compiler.go','calAndSetParentIndex','queue','todo'); ren('compiler.go','calAndSetParentIndex','f','table')
ren('compiler.go','calAndSetStackSize','prev','before')
ren('util.go','Dump','rootIdx','top'); ren('util.go','Dump','childIdxes','kids'); ren('util.go','splitLinesOutsideStrings','start','from0')
# session 3: behaviour-preserving edits that are not renames
sub('parser.go', [(r'\treturn &astNode\{\n\t\tchildren: children,\n\t\tnode: &node\{\n\t\t\tflag:     operator,', '\treturn &astNode{\n\t\tchildren: append([]*astNode(nil), children...),\n\t\tnode: &node{\n\t\t\tflag:     operator,')])
sub('parser.go', [(r'\tp.walk\(\)\n\treturn p.valNode\(t.val\), nil', '\ttext := t.val\n\tp.walk()\n\treturn p.valNode(text), nil')])
sub('compiler.go', [(r'\t\tcase operator:\n\t\t\tf\[i\] = f\[before\] - int16\(n.childCnt\) \+ 1\n\t\tcase cond:\n\t\t\tif n.value == keywordIf \{\n\t\t\t\tf\[i\] = f\[before\] - 1\n\t\t\t\} else \{\n\t\t\t\tf\[i\] = f\[before\]\n\t\t\t\}',
   '\t\tcase cond:\n\t\t\tif n.value == keywordIf {\n\t\t\t\tf[i] = f[before] - 1\n\t\t\t} else {\n\t\t\t\tf[i] = f[before]\n\t\t\t}\n\t\tcase operator:\n\t\t\tf[i] = f[before] + 1 - int16(n.childCnt)')])
# parser.go: error message texts, a local of the list parser
sub('parser.go', [(r'invalid compile format', 'malformed compile directive'), (r'(?<![.\w])strs\b','texts')])
# variable.go / util.go
sub('variable.go', [(r'(?<![.\w])vals\b','values')])
PY
(cd $d && go build ./... ) || { echo "harmless edits do not build"; rm -rf $d; exit 2; }
(cd $d && go test -vet=off -count=1 ./... 2>&1 | grep -m3 -e "^--- FAIL" -e "^FAIL") && echo "NOTE: the repository suite fails with these edits"
fail=0
for p in ${@:-C01 C02 C03 C04 C05 C06 C07 C08 C09 C10 C11 C12 C13 C14 C15 C16 C17 C18 C19 C20}; do
  out=$(VERIF_REPO=$d VERIF_OUT=$d/out bin/govc check $p 2>&1); rc=$?
  if [ $rc -ne 0 ]; then echo "HARMLESS $p: FALSE ALARM (exit $rc)"; echo "$out" | grep "^FAILED" | head -3 | cut -c1-220; fail=1; else echo "HARMLESS $p: ok"; fi
done
rm -rf $d
exit $fail
