package vc

import (
	"fmt"
	"go/token"
	"go/types"
	"sort"
	"strings"

	"golang.org/x/tools/go/ssa"
)

const maxInlineDepth = 8

func (fr *frame) call(x *ssa.Call, st *state) {
	g := fr.g
	com := x.Common()
	if com.IsInvoke() {
		fr.invoke(x, st)
		return
	}
	if bi, ok := com.Value.(*ssa.Builtin); ok {
		fr.builtin(x, bi, st)
		return
	}
	var args []*Term
	for _, a := range com.Args {
		args = append(args, fr.val(a))
	}
	var fn *ssa.Function
	var clo *Closure
	if sc := com.StaticCallee(); sc != nil {
		fn = sc
		if mc, ok := com.Value.(*ssa.MakeClosure); ok {
			clo = fr.val(mc).Clo
		}
	} else {
		v := fr.val(com.Value)
		if v.Clo != nil {
			if f, ok := v.Clo.Fn.(*ssa.Function); ok {
				fn, clo = f, v.Clo
			}
		}
		if fn == nil {
			// `binds <var> <key>`: the captured function variable holds the closure <key> over the same captured
			// environment (a self-recursive closure calling itself through its own variable)
			if bf, bclo := fr.boundClosure(com.Value); bf != nil {
				g.usedAssumptions["captured function variable holds the closure named in the `binds` clause of "+fr.key+" (established where the enclosing function assigns it)"] = true
				g.safety(fr, st, "nil-func-call", fr.srcAnchor(x.Pos(), isCall, "call"), x.Pos(), "(not (= "+v.S+" 0))")
				fr.callInternal(x, bf, bclo, args, st)
				return
			}
			fr.dynamicCall(x, v, args, st)
			return
		}
	}
	if fn.Pkg != g.P.SSA && !(fn.Parent() != nil && fn.Parent().Pkg == g.P.SSA) && fn.Pkg != nil || (fn.Pkg == nil && len(fn.Blocks) == 0) || isExternal(g, fn) {
		fr.external(x, fn, args, st)
		return
	}
	fr.callInternal(x, fn, clo, args, st)
}

func isExternal(g *Gen, fn *ssa.Function) bool {
	f := fn
	for f.Parent() != nil {
		f = f.Parent()
	}
	if f.Pkg == g.P.SSA {
		return false
	}
	// bound-method wrappers and thunks of package functions are synthetic with Pkg == nil
	if f.Pkg == nil && f.Synthetic != "" && len(f.Blocks) > 0 {
		return false
	}
	return true
}

func (fr *frame) active(fn *ssa.Function) bool {
	for f := fr; f != nil; f = f.parent {
		if f.fn == fn {
			return true
		}
	}
	return false
}

func (fr *frame) setResult(x *ssa.Call, vals []*Term) {
	sig := x.Common().Signature()
	switch sig.Results().Len() {
	case 0:
		fr.env[x] = &Term{S: "0", T: x.Type()}
	case 1:
		fr.env[x] = vals[0]
	default:
		fr.env[x] = &Term{T: x.Type(), Tuple: vals}
	}
}

func (fr *frame) callInternal(x *ssa.Call, fn *ssa.Function, clo *Closure, args []*Term, st *state) {
	g := fr.g
	key := g.P.Keys[fn]
	con := g.Spec.Contracts[key]
	if con != nil && !con.Inline {
		fr.callByContract(x, fn, con, clo, args, st)
		return
	}
	if fr.depth < maxInlineDepth && !fr.active(fn) && len(fn.Blocks) > 0 {
		child := g.newFrame(fn, fr, clo)
		child.run(args, st)
		fr.joinReturns(x, child, st)
		return
	}
	// recursion / too deep without a contract: havoc by the inferred frame
	fr.havocCall(x, fn, st)
}

// joinReturns merges the return sites of an inlined callee into st and binds the results.
func (fr *frame) joinReturns(x *ssa.Call, child *frame, st *state) {
	g := fr.g
	sig := child.fn.Signature
	nres := sig.Results().Len()
	if len(child.rets) == 0 {
		st.cur = "false"
		vals := make([]*Term, nres)
		for i := range vals {
			vals[i] = &Term{S: g.zero(sig.Results().At(i).Type()), T: sig.Results().At(i).Type()}
		}
		fr.setResult(x, vals)
		return
	}
	var conds []string
	var sts []*state
	for _, r := range child.rets {
		conds = append(conds, r.cond)
		sts = append(sts, r.st)
	}
	var cur string
	if len(conds) == 1 {
		cur = conds[0]
	} else {
		cur = g.fresh(child.prefix+"ret", "Bool")
		g.assert("(= " + cur + " (or " + strings.Join(conds, " ") + "))")
	}
	merged := g.mergeStates(conds, sts, cur)
	st.cur, st.heap = merged.cur, merged.heap
	vals := make([]*Term, nres)
	for i := 0; i < nres; i++ {
		rt := sig.Results().At(i).Type()
		same := true
		for _, r := range child.rets {
			if r.vals[i].S != child.rets[0].vals[i].S {
				same = false
			}
		}
		if same {
			vals[i] = child.rets[0].vals[i]
			continue
		}
		s := g.U.sortOf(rt)
		if s == "" {
			g.rejectf("result of unrepresentable type %s", rt)
			s = "Int"
		}
		n := g.fresh(child.prefix+fmt.Sprintf("res%d", i), s)
		t := child.rets[len(child.rets)-1].vals[i].S
		for j := len(child.rets) - 2; j >= 0; j-- {
			t = "(ite " + conds[j] + " " + child.rets[j].vals[i].S + " " + t + ")"
		}
		g.assert("(= " + n + " " + t + ")")
		vals[i] = &Term{S: n, T: rt}
		// keep closure knowledge when every site returns the same closure function
		c0 := child.rets[0].vals[i].Clo
		if c0 != nil && len(child.rets) == 1 {
			vals[i].Clo = c0
		}
	}
	fr.setResult(x, vals)
}

func (fr *frame) havocMods(mods map[string]bool, st *state) {
	g := fr.g
	var ms []string
	for m := range mods {
		ms = append(ms, m)
	}
	sort.Strings(ms)
	for _, m := range ms {
		bi, ok := g.Eng.baseInfos[m]
		if !ok {
			continue
		}
		old := g.base(st, m, bi.leaf, bi.nidx, false)
		nv := g.newVersion(st, m)
		if m == "next" {
			g.assert("(>= " + nv + " " + old + ")")
		}
	}
}

func (fr *frame) freshResults(x *ssa.Call, sig *types.Signature, st *state, tag string) []*Term {
	var vals []*Term
	for i := 0; i < sig.Results().Len(); i++ {
		vals = append(vals, fr.symbolic(fr.name(x)+"_"+tag+fmt.Sprint(i), sig.Results().At(i).Type(), st))
	}
	return vals
}

func (fr *frame) havocCall(x *ssa.Call, fn *ssa.Function, st *state) {
	g := fr.g
	mods := g.Eng.modset(fn)
	fr.havocMods(mods, st)
	fr.setResult(x, fr.freshResults(x, fn.Signature, st, "r"))
}

func (fr *frame) callByContract(x *ssa.Call, fn *ssa.Function, con *Contract, clo *Closure, args []*Term, st *state) {
	g := fr.g
	key := g.P.Keys[fn]
	names := map[string]*Term{}
	for i, p := range fn.Params {
		if i < len(args) {
			names[p.Name()] = args[i]
		}
	}
	if clo != nil {
		for i, fv := range fn.FreeVars {
			if i < len(clo.Bindings) {
				names["&"+fv.Name()] = clo.Bindings[i]
			}
		}
	}
	// the contract text may still use the recorded (pre-rename) names of the callee's parameters / captured variables
	for o, n := range g.Eng.renameFor(key, fn) {
		if t, ok := names[n]; ok {
			names[o] = t
		}
		if t, ok := names["&"+n]; ok {
			names["&"+o] = t
		}
	}
	fr.callSiteObligationsFor(key, x, nil, args, st)
	pre := st.clone()
	short := key
	anchor := fr.srcAnchor(x.Pos(), isCall, key)
	if !g.dry {
		for _, r := range con.Requires {
			sc := &specCtx{fr: fr, st: pre, old: pre, names: names, calleeView: true}
			t := sc.tr(r.Expr)
			if sc.err != "" {
				g.rejectf("requires [%s] of %s at call: %s", r.Label, key, sc.err)
				continue
			}
			g.addObl(fr, st, "pre", short+"["+r.Label+"]:"+anchor, "precondition "+r.Label+" of "+key+" at call", x.Pos(), t)
		}
	}
	mods := g.Eng.modset(fn)
	fr.havocMods(mods, st)
	vals := fr.freshResults(x, fn.Signature, st, "r")
	if !g.dry {
		for _, e := range con.Ensures {
			sc := &specCtx{fr: fr, st: st, old: pre, names: names, rets: vals, retNames: resultNames(fn), calleeView: true}
			t := sc.tr(e.Expr)
			if sc.err != "" {
				g.rejectf("ensures [%s] of %s at call: %s", e.Label, key, sc.err)
				continue
			}
			g.assert("(=> " + st.cur + " " + t + ")")
		}
	}
	fr.setResult(x, vals)
}

func resultNames(fn *ssa.Function) []string {
	var out []string
	res := fn.Signature.Results()
	for i := 0; i < res.Len(); i++ {
		out = append(out, res.At(i).Name())
	}
	return out
}

// dynamicCall: a call through a function value that is not statically known (operators,
// options, leaf parsers). Per DESIGN 2.2 it is an oracle: fresh results, no effect on
// modelled memory (assumption: well-behaved callees).
func (fr *frame) dynamicCall(x *ssa.Call, v *Term, args []*Term, st *state) {
	g := fr.g
	g.usedAssumptions["dynamic calls (function values not statically known) return arbitrary well-typed results and do not modify modelled memory other than the elements of the argument slice an operator is given"] = true
	g.safety(fr, st, "nil-func-call", fr.srcAnchor(x.Pos(), isCall, "call"), x.Pos(), "(not (= "+v.S+" 0))")
	fr.callSiteObligations(x, v, args, st)
	if !fr.isOperatorSig(x.Common().Signature()) {
		// not an operator: a function value of the package's own plumbing (leaf parsers, options, optimisers):
		// it may do anything to the heap -> havoc every heap component known to this run
		g.usedAssumptions["calls through non-operator function values (leaf parsers, options) are treated as havoc of all modelled heap components"] = true
		all := map[string]bool{}
		if g.con != nil && len(g.con.DynCallees) > 0 {
			// the contract names the possible callees: havoc the union of their inferred frames
			g.usedAssumptions["calls through non-operator function values in "+g.key+" target one of: "+strings.Join(g.con.DynCallees, ", ")] = true
			for _, k := range g.con.DynCallees {
				if cf := g.P.Lookup(k); cf != nil {
					for b := range g.Eng.modset(cf) {
						all[b] = true
					}
				} else {
					g.rejectf("dyncallees: no such function %s", k)
				}
			}
		} else {
			for k, bi := range g.Eng.baseInfos {
				if !bi.local && !strings.HasPrefix(k, "dyn.") {
					all[k] = true
				}
			}
		}
		fr.havocMods(all, st)
	}
	if fr.isOperatorSig(x.Common().Signature()) && len(args) == 2 {
		// an operator receives its arguments in a slice it may write through: after the call the elements
		// params[0..len) are arbitrary (everything else in modelled memory is untouched)
		if slt, ok := x.Common().Args[1].Type().Underlying().(*types.Slice); ok {
			ps := args[1].S
			for _, lf := range g.leaves("E_"+typeKey(slt.Elem()), slt.Elem()) {
				ls := g.leafSort(lf.typ)
				old := g.base(st, lf.name, ls, 2, false)
				A := g.fresh(fr.name(x)+"_scribble", "(Array Int "+ls+")")
				nv := g.newVersion(st, lf.name)
				g.assert("(= " + nv + " (store " + old + " (s_arr " + ps + ") " + A + "))")
				g.assert("(forall ((j Int)) (! (=> (or (< j (s_off " + ps + ")) (>= j (+ (s_off " + ps + ") (s_len " + ps + ")))) (= (select " + A + " j) (select (select " + old + " (s_arr " + ps + ")) j))) :pattern ((select " + A + " j))))")
			}
		}
	}
	// ghost call log (callee id per call); results are uninterpreted functions of (callee, call number):
	// arbitrary per call, yet nameable in contracts as (dynres_<i>_<sort> fn k)
	cnt := g.base(st, "dyn.n", "Int", 0, false)
	fns := g.base(st, "dyn.fn", "Int", 1, false)
	sig := x.Common().Signature()
	var vals []*Term
	for i := 0; i < sig.Results().Len(); i++ {
		rt := sig.Results().At(i).Type()
		srt := g.U.sortOf(rt)
		if srt == "" {
			vals = append(vals, fr.symbolic(fr.name(x)+"_dyn", rt, st))
			continue
		}
		fname := fmt.Sprintf("dynres_%d_%s", i, sanitizeSym(srt))
		g.declareFun(fname, "(Int Int) "+srt)
		n := g.fresh(fr.name(x)+"_dyn", srt)
		g.assert("(= " + n + " (" + fname + " " + v.S + " " + cnt + "))")
		g.assumeType(rt, n, st, false)
		vals = append(vals, &Term{S: n, T: rt})
	}
	n1 := g.newVersion(st, "dyn.n")
	g.assert("(= " + n1 + " (+ " + cnt + " 1))")
	f1 := g.newVersion(st, "dyn.fn")
	g.assert("(= " + f1 + " (store " + fns + " " + cnt + " " + v.S + "))")
	fr.noteLastErr(vals, st)
	fr.setResult(x, vals)
}

func (fr *frame) invoke(x *ssa.Call, st *state) {
	g := fr.g
	com := x.Common()
	recv := fr.val(com.Value)
	var args []*Term
	for _, a := range com.Args {
		args = append(args, fr.val(a))
	}
	name := com.Method.Name()
	g.usedAssumptions["interface method calls ("+name+") are oracles: results are a function of the receiver and the arguments, no effect on modelled memory"] = true
	g.safety(fr, st, "nil-iface-call", fr.srcAnchor(x.Pos(), isCall, name), x.Pos(), "(not (= "+recv.S+" VNil))")
	sig := com.Signature()
	var vals []*Term
	for i := 0; i < sig.Results().Len(); i++ {
		rt := sig.Results().At(i).Type()
		s := g.U.sortOf(rt)
		if s == "" {
			g.rejectf("invoke result type %s", rt)
			s = "Int"
		}
		// deterministic oracle: uninterpreted function of receiver and arguments
		fname := fmt.Sprintf("inv_%s_%d", name, i)
		var sorts, ts []string
		sorts = append(sorts, g.U.sortOf(com.Value.Type()))
		ts = append(ts, recv.S)
		okArgs := true
		for j, a := range args {
			as := g.U.sortOf(com.Args[j].Type())
			if as == "" {
				okArgs = false
				break
			}
			sorts = append(sorts, as)
			ts = append(ts, a.S)
		}
		if okArgs && sorts[0] != "" {
			g.declareFun(fname, "("+strings.Join(sorts, " ")+") "+s)
			t := "(" + fname + " " + strings.Join(ts, " ") + ")"
			n := g.fresh(fr.name(x)+"_inv", s)
			g.assert("(= " + n + " " + t + ")")
			g.assumeType(rt, n, st, false)
			vals = append(vals, &Term{S: n, T: rt})
		} else {
			vals = append(vals, fr.symbolic(fr.name(x)+"_inv", rt, st))
		}
	}
	// ghost per-method call counter
	cb := "inv." + name + ".n"
	c0 := g.base(st, cb, "Int", 0, false)
	c1 := g.newVersion(st, cb)
	g.assert("(= " + c1 + " (+ " + c0 + " 1))")
	fr.noteLastErr(vals, st)
	fr.setResult(x, vals)
}

func (fr *frame) builtin(x *ssa.Call, bi *ssa.Builtin, st *state) {
	g := fr.g
	com := x.Common()
	var args []*Term
	for _, a := range com.Args {
		args = append(args, fr.val(a))
	}
	switch bi.Name() {
	case "len":
		switch t := com.Args[0].Type().Underlying().(type) {
		case *types.Slice:
			fr.env[x] = &Term{S: "(s_len " + args[0].S + ")", T: x.Type()}
		case *types.Map:
			_, _, card, _, _ := g.mapBases(st, t)
			n := g.fresh(fr.name(x)+"_len", "Int")
			g.assert("(= " + n + " (ite (= " + args[0].S + " 0) 0 (select " + card + " " + args[0].S + ")))")
			g.assert("(>= " + n + " 0)")
			fr.env[x] = &Term{S: n, T: x.Type()}
		case *types.Basic:
			fr.env[x] = &Term{S: "(strlen " + args[0].S + ")", T: x.Type()}
		case *types.Array:
			fr.env[x] = &Term{S: fmt.Sprint(t.Len()), T: x.Type()}
		case *types.Pointer:
			if at, ok := t.Elem().Underlying().(*types.Array); ok {
				fr.env[x] = &Term{S: fmt.Sprint(at.Len()), T: x.Type()}
			} else {
				g.rejectf("len of %s", t)
			}
		default:
			g.rejectf("len of %s", com.Args[0].Type())
			fr.env[x] = &Term{S: "0", T: x.Type()}
		}
	case "cap":
		fr.env[x] = &Term{S: "(s_cap " + args[0].S + ")", T: x.Type()}
	case "append":
		fr.appendCall(x, args, st)
	case "copy":
		fr.copyCall(x, args, st)
	case "delete":
		g.rejectf("delete on maps is outside the subset")
	case "print", "println":
	case "min", "max":
		if len(args) == 2 && g.U.sortOf(x.Type()) != "" {
			op := "<"
			if bi.Name() == "max" {
				op = ">"
			}
			fr.env[x] = &Term{S: "(ite (" + op + " " + args[0].S + " " + args[1].S + ") " + args[0].S + " " + args[1].S + ")", T: x.Type()}
		} else {
			g.rejectf("builtin %s", bi.Name())
		}
	default:
		g.rejectf("builtin %s", bi.Name())
		fr.env[x] = &Term{S: "0", T: x.Type()}
	}
}

// constLenVarargs recognises the slice produced for a variadic call/append with k explicit
// elements: Slice(Alloc [k]T) with full range.
func constLen(v ssa.Value) (int64, bool) {
	s, ok := v.(*ssa.Slice)
	if !ok || s.Low != nil || s.High != nil {
		return 0, false
	}
	a, ok := s.X.(*ssa.Alloc)
	if !ok {
		return 0, false
	}
	at, ok := a.Type().(*types.Pointer).Elem().Underlying().(*types.Array)
	if !ok {
		return 0, false
	}
	return at.Len(), true
}

func (fr *frame) appendCall(x *ssa.Call, args []*Term, st *state) {
	g := fr.g
	s, t := args[0], args[1]
	slt, ok := x.Type().Underlying().(*types.Slice)
	if !ok {
		g.rejectf("append to %s", x.Type())
		return
	}
	if _, isStr := x.Common().Args[1].Type().Underlying().(*types.Basic); isStr {
		g.rejectf("append(bytes, string...)")
		fr.env[x] = s
		return
	}
	el := slt.Elem()
	n := "(s_len " + s.S + ")"
	k := "(s_len " + t.S + ")"
	fits := g.fresh(fr.name(x)+"_fits", "Bool")
	g.assert("(= " + fits + " (<= (+ " + n + " " + k + ") (s_cap " + s.S + ")))")
	next := g.base(st, "next", "Int", 0, false)
	newarr := g.fresh(fr.name(x)+"_arr", "Int")
	g.assert("(= " + newarr + " (ite " + fits + " (s_arr " + s.S + ") " + next + "))")
	newoff := g.fresh(fr.name(x)+"_off", "Int")
	g.assert("(= " + newoff + " (ite " + fits + " (s_off " + s.S + ") 0))")
	ncap := g.fresh(fr.name(x)+"_cap", "Int")
	g.assert("(and (>= " + ncap + " (+ " + n + " " + k + ")) (<= " + ncap + " 1152921504606846975))")
	g.addObl(fr, st, "nooverflow", "append-len:"+fr.srcAnchor(x.Pos(), isCall, "append"), "slice length stays within int", x.Pos(), "(<= (+ "+n+" "+k+") 1152921504606846975)")
	r := g.fresh(fr.name(x)+"_app", "Slice")
	g.assert("(= " + r + " (mk_slice " + newarr + " " + newoff + " (+ " + n + " " + k + ") (ite " + fits + " (s_cap " + s.S + ") " + ncap + ")))")
	nn := g.newVersion(st, "next")
	g.assert("(= " + nn + " (ite " + fits + " " + next + " (+ " + next + " 1)))")
	clen, isConst := constLen(x.Common().Args[1])
	for _, lf := range g.leaves("E_"+typeKey(el), el) {
		ls := g.leafSort(lf.typ)
		old := g.base(st, lf.name, ls, 2, false)
		A := g.fresh(fr.name(x)+"_A", "(Array Int "+ls+")")
		nv := g.newVersion(st, lf.name)
		g.assert("(= " + nv + " (store " + old + " " + newarr + " " + A + "))")
		src := "(select " + old + " (s_arr " + s.S + "))"
		tsrc := "(select " + old + " (s_arr " + t.S + "))"
		g.assert("(forall ((j Int)) (! (=> (and (<= 0 j) (< j " + n + ")) (= (select " + A + " (+ " + newoff + " j)) (select " + src + " (+ (s_off " + s.S + ") j)))) :pattern ((select " + A + " (+ " + newoff + " j)))))")
		if isConst && clen <= 4 {
			for j := int64(0); j < clen; j++ {
				g.assert(fmt.Sprintf("(= (select %s (+ %s %s %d)) (select %s (+ (s_off %s) %d)))", A, newoff, n, j, tsrc, t.S, j))
			}
		} else {
			g.assert("(forall ((j Int)) (! (=> (and (<= 0 j) (< j " + k + ")) (= (select " + A + " (+ " + newoff + " " + n + " j)) (select " + tsrc + " (+ (s_off " + t.S + ") j)))) :pattern ((select " + A + " (+ " + newoff + " " + n + " j)))))")
		}
		// the same two facts stated over the ABSOLUTE index (pattern: a plain select), so that a goal about an arbitrary
		// element of the result can use them (E-matching cannot solve newoff+n+j = j0 for j)
		g.assert("(forall ((j Int)) (! (=> (and (<= " + newoff + " j) (< j (+ " + newoff + " " + n + "))) (= (select " + A + " j) (select " + src + " (+ (s_off " + s.S + ") (- j " + newoff + "))))) :pattern ((select " + A + " j))))")
		if !(isConst && clen <= 4) {
			g.assert("(forall ((j Int)) (! (=> (and (<= (+ " + newoff + " " + n + ") j) (< j (+ " + newoff + " " + n + " " + k + "))) (= (select " + A + " j) (select " + tsrc + " (+ (s_off " + t.S + ") (- j " + newoff + " " + n + "))))) :pattern ((select " + A + " j))))")
		}
		g.assert("(=> " + fits + " (forall ((j Int)) (! (=> (or (< j (+ (s_off " + s.S + ") " + n + ")) (>= j (+ (s_off " + s.S + ") " + n + " " + k + "))) (= (select " + A + " j) (select " + src + " j))) :pattern ((select " + A + " j)))))")
	}
	fr.env[x] = &Term{S: r, T: x.Type()}
}

func (fr *frame) copyCall(x *ssa.Call, args []*Term, st *state) {
	g := fr.g
	d, s := args[0], args[1]
	dt, ok1 := x.Common().Args[0].Type().Underlying().(*types.Slice)
	_, ok2 := x.Common().Args[1].Type().Underlying().(*types.Slice)
	if !ok1 || !ok2 {
		g.rejectf("copy with non-slice operands")
		fr.env[x] = &Term{S: "0", T: x.Type()}
		return
	}
	el := dt.Elem()
	n := g.fresh(fr.name(x)+"_n", "Int")
	g.assert("(= " + n + " (ite (< (s_len " + d.S + ") (s_len " + s.S + ")) (s_len " + d.S + ") (s_len " + s.S + ")))")
	for _, lf := range g.leaves("E_"+typeKey(el), el) {
		ls := g.leafSort(lf.typ)
		old := g.base(st, lf.name, ls, 2, false)
		A := g.fresh(fr.name(x)+"_A", "(Array Int "+ls+")")
		nv := g.newVersion(st, lf.name)
		g.assert("(= " + nv + " (store " + old + " (s_arr " + d.S + ") " + A + "))")
		g.assert("(forall ((j Int)) (! (=> (and (<= 0 j) (< j " + n + ")) (= (select " + A + " (+ (s_off " + d.S + ") j)) (select (select " + old + " (s_arr " + s.S + ")) (+ (s_off " + s.S + ") j)))) :pattern ((select " + A + " (+ (s_off " + d.S + ") j)))))")
		g.assert("(forall ((j Int)) (! (=> (or (< j (s_off " + d.S + ")) (>= j (+ (s_off " + d.S + ") " + n + "))) (= (select " + A + " j) (select (select " + old + " (s_arr " + d.S + ")) j))) :pattern ((select " + A + " j))))")
	}
	fr.env[x] = &Term{S: n, T: x.Type()}
}

// noteLastErr records the error result of an oracle call (fetcher / operator) in the ghost
// cell last.err, so that contracts can state "the returned error is the very one the last call returned".
func (fr *frame) noteLastErr(vals []*Term, st *state) {
	g := fr.g
	if len(vals) == 0 {
		return
	}
	last := vals[len(vals)-1]
	if last.T == nil || !isErrorType(last.T) {
		return
	}
	g.base(st, "last.err", "Err", 0, false)
	nv := g.newVersion(st, "last.err")
	g.assert("(= " + nv + " " + last.S + ")")
}

func (fr *frame) isOperatorSig(sig *types.Signature) bool {
	if opT := fr.g.P.SSA.Type("Operator"); opT != nil {
		return types.Identical(sig, opT.Type().Underlying())
	}
	return false
}

// callSiteObligations emits the `callsite` clauses of the function under verification at a call through a
// function value: $callee is the function value, $arg<i> the actual arguments and $fnbase the struct the
// function value was loaded from (curt for curt.operator).  Only calls in the function's own body count
// (not in inlined callees, whose own contracts would carry such clauses).
func (fr *frame) callSiteObligations(x *ssa.Call, v *Term, args []*Term, st *state) {
	fr.callSiteObligationsFor("", x, v, args, st)
	// [dyn:<name>:label]: calls through the captured / local function variable <name>
	if ld, ok := x.Common().Value.(*ssa.UnOp); ok && ld.Op == token.MUL {
		switch c := ld.X.(type) {
		case *ssa.FreeVar:
			fr.callSiteObligationsFor("dyn:"+c.Name(), x, v, args, st)
		case *ssa.Alloc:
			if c.Comment != "" {
				fr.callSiteObligationsFor("dyn:"+c.Comment, x, v, args, st)
			}
		}
	}
}

// callSiteObligationsFor: target "" = calls through function values (label without ':'); otherwise the clauses
// labelled [<target>:<label>] at static calls of the function <target>.
func (fr *frame) callSiteObligationsFor(target string, x *ssa.Call, v *Term, args []*Term, st *state) {
	g := fr.g
	if g.con == nil || len(g.con.CallSites) == 0 || fr.inline != "" || g.dry {
		return
	}
	names := map[string]*Term{}
	if v != nil {
		names["callee"] = v
	}
	for i, a := range args {
		names[fmt.Sprintf("arg%d", i)] = a
	}
	if ld, ok := x.Common().Value.(*ssa.UnOp); ok && ld.Op == token.MUL {
		if fa, ok := ld.X.(*ssa.FieldAddr); ok {
			names["fnbase"] = fr.val(fa.X)
		}
	}
	anchor := fr.srcAnchor(x.Pos(), isCall, "call")
	for _, c := range g.con.CallSites {
		ct := ""
		if i := strings.LastIndex(c.Label, ":"); i >= 0 {
			ct = c.Label[:i]
		}
		if ct != target {
			continue
		}
		sc := &specCtx{fr: fr, st: st, old: fr.entryState(), names: names, block: x.Block(), phiPred: -1}
		cond := sc.tr(c.Expr)
		if sc.err != "" {
			g.rejectf("callsite [%s]: %s", c.Label, sc.err)
			continue
		}
		g.addObl(fr, st, "callsite", c.Label+":"+anchor, "callsite", x.Pos(), cond)
	}
}

// boundClosure resolves a call through a captured function variable named in a `binds` clause.
func (fr *frame) boundClosure(v ssa.Value) (*ssa.Function, *Closure) {
	if fr.con == nil || len(fr.con.Binds) == 0 {
		return nil, nil
	}
	ld, ok := v.(*ssa.UnOp)
	if !ok || ld.Op != token.MUL {
		return nil, nil
	}
	fv, ok := ld.X.(*ssa.FreeVar)
	if !ok {
		return nil, nil
	}
	key, ok := fr.con.Binds[fv.Name()]
	if !ok {
		return nil, nil
	}
	fn := fr.g.P.Lookup(key)
	if fn == nil {
		fr.g.rejectf("binds: no such function %s", key)
		return nil, nil
	}
	clo := &Closure{Fn: fn}
	for _, want := range fn.FreeVars {
		var b *Term
		for _, have := range fr.fn.FreeVars {
			if have.Name() == want.Name() {
				b = fr.val(have)
			}
		}
		if b == nil {
			fr.g.rejectf("binds: %s captures %s which %s does not", key, want.Name(), fr.key)
			return nil, nil
		}
		clo.Bindings = append(clo.Bindings, b)
	}
	return fn, clo
}
