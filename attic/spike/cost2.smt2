(set-logic ALL)
; if-node: c0 + max(c1,c2) monotone; L3 lower bound
(declare-const c0 Real)(declare-const c1 Real)(declare-const c2 Real)
(declare-const e0 Real)(declare-const e1 Real)(declare-const e2 Real)
(define-fun mx ((x Real)(y Real)) Real (ite (>= x y) x y))
(assert (and (<= c0 e0) (<= c1 e1) (<= c2 e2)))
(assert (not (<= (+ 4.0 c0 (mx c1 c2)) (+ 4.0 e0 (mx e1 e2)))))
(check-sat)
