package main

import (
	"encoding/json"
	"fmt"
	"os"
	"path/filepath"
	"sort"
	"strings"
	"time"

	"govc/internal/core"
	"govc/internal/load"
)

// Engine runs one kind of obligation generator for a property; sel is the
// engine-specific selection from claims/<ID>.json.
type Engine func(env *core.Env, p *load.Program, prop string, sel json.RawMessage) (*core.Result, error)

var engines = map[string]Engine{}

// replayers turn a refuted obligation's model into a run of the real code.
var replayers = map[string]func(env *core.Env, p *load.Program, prop string, o *core.Obl){}

func cmdCheck(args []string) int {
	if len(args) < 1 {
		usage()
	}
	prop := args[0]
	list := false
	env := core.EnvFromOS(prop)
	env.SetTier(env.Tier)
	for i := 1; i < len(args); i++ {
		switch args[i] {
		case "--tier":
			if i+1 < len(args) {
				env.SetTier(args[i+1])
				i++
			}
		case "-v":
			env.Verbose = true
		case "-l":
			list = true
		}
	}
	t0 := time.Now()
	cf, err := core.LoadClaims(env.Verif, prop)
	if err != nil {
		fmt.Fprintln(os.Stderr, "govc: no claims for", prop, ":", err)
		return 2
	}
	env.Claimed = cf.IsClaimed
	os.RemoveAll(env.Work)
	os.MkdirAll(env.Work, 0o755)
	defer os.RemoveAll(env.Work)
	os.RemoveAll(env.Out + "/replays/" + prop)

	p, err := load.Load(env.Repo)
	if err != nil {
		// the tree does not build: this is not a property violation, it is an unusable input
		fmt.Fprintln(os.Stderr, "govc: cannot load /repo:", err)
		return 2
	}
	res := &core.Result{Extra: map[string]interface{}{}}
	var names []string
	for n := range cf.Engines {
		names = append(names, n)
	}
	sort.Strings(names)
	for _, n := range names {
		e := engines[n]
		if e == nil {
			fmt.Fprintln(os.Stderr, "govc: unknown engine", n)
			return 2
		}
		r, err := e(env, p, prop, cf.Engines[n])
		if err != nil {
			fmt.Fprintf(os.Stderr, "govc: engine %s: %v\n", n, err)
			msg := err.Error()
			if strings.Contains(msg, "panic:") || strings.Contains(msg, "fatal error:") {
				// the tree builds, but the code under test crashed inside one of the in-package drivers (e.g. Compile panics on
				// an ordinary expression): that is a failing obligation of this property, not an unusable input
				if len(msg) > 1500 {
					msg = msg[:1500]
				}
				r = &core.Result{Extra: map[string]interface{}{}}
				r.Obls = append(r.Obls, &core.Obl{Name: n + "/driver/the-code-under-test-crashes", Kind: "driver-crash", Tier: "bounded", Status: core.Refuted,
					Detail: "the code under test panicked inside the " + n + " driver, which runs Compile / Eval on ordinary inputs: " + msg})
				res.Merge(r)
				continue
			}
			return 2
		}
		res.Merge(r)
	}
	res.Extra["source_sha256"] = p.Hashes
	replay := func(o *core.Obl) {
		if r := replayers[o.ReplayKind]; r != nil {
			r(env, p, prop, o)
		}
	}
	if list {
		for _, o := range res.Obls {
			fmt.Printf("  %-11s %-8s %s\n", o.Status, o.Tier, o.Name)
		}
	}
	v := core.Decide(env, cf, res, replay)
	cmd := "cd /verif && ./check " + prop + " --tier " + env.Tier
	if err := core.WriteEvidence(env, cf, res, v, time.Since(t0), cmd); err != nil {
		fmt.Fprintln(os.Stderr, "govc: evidence:", err)
		return 2
	}
	nd := 0
	for _, o := range v.Claimed {
		if o.Status == core.Discharged {
			nd++
		}
	}
	fmt.Printf("property %s tier %s: %d obligations generated, %d claimed, %d of the claimed discharged, %d unclaimed; %.1fs\n",
		prop, env.Tier, len(res.Obls), len(v.Claimed), nd, len(v.Unclaimed), time.Since(t0).Seconds())
	for _, l := range v.Lines {
		fmt.Println(l)
	}
	if v.ExitCode == 0 {
		fmt.Println("OK property=" + prop + " " + strings.TrimSpace(fmt.Sprintf("known-findings=%d", len(v.Known))))
	}
	return v.ExitCode
}

// cmdReplay: `govc replay <ID> <replay.json>` re-decides the one obligation a replay file names on the CURRENT tree:
// bounded-tier obligations carry their own experiment (program source, bindings, expected outcome) and are re-run on
// the real code directly; every other obligation is regenerated from the current source (only the engine / function it
// belongs to), discharged again and, if it is refuted, replayed.  Exit 1 + VIOLATION line if it still fails, 0 if not.
func cmdReplay(args []string) int {
	if len(args) < 2 {
		usage()
	}
	prop, path := args[0], args[1]
	b, err := os.ReadFile(path)
	if err != nil {
		fmt.Fprintln(os.Stderr, "govc replay:", err)
		return 2
	}
	var rec struct {
		Obligation string            `json:"obligation"`
		ReplayKind string            `json:"replay_kind"`
		ReplayData map[string]string `json:"replay_data"`
		Model      map[string]string `json:"model"`
		Witness    string            `json:"witness"`
	}
	if err := json.Unmarshal(b, &rec); err != nil || rec.Obligation == "" {
		fmt.Fprintln(os.Stderr, "govc replay: not a replay file:", path)
		return 2
	}
	env := core.EnvFromOS(prop)
	env.SetTier(env.Tier)
	env.Out = filepath.Join(env.Out, "replay-run")
	cf, err := core.LoadClaims(env.Verif, prop)
	if err != nil {
		fmt.Fprintln(os.Stderr, "govc: no claims for", prop, ":", err)
		return 2
	}
	env.Claimed = func(string) bool { return true }
	os.MkdirAll(env.Work, 0o755)
	defer os.RemoveAll(env.Work)
	p, err := load.Load(env.Repo)
	if err != nil {
		fmt.Fprintln(os.Stderr, "govc: cannot load /repo:", err)
		return 2
	}
	name := rec.Obligation
	report := func(o *core.Obl) int {
		if o.Status == core.Discharged {
			fmt.Printf("REPLAY property=%s obligation=%s: holds on the current tree\n", prop, name)
			return 0
		}
		fmt.Printf("FAILED-OBLIGATION %s [%s] %s %s\n", o.Name, o.Status, o.Detail, o.Witness)
		if o.Replay != nil {
			fmt.Printf("REPLAY confirmed=%v %s\n", o.Replay.Confirmed, strings.ReplaceAll(o.Replay.Output, "\n", " | "))
		}
		line := fmt.Sprintf("VIOLATION property=%s replay=%s", prop, path)
		if o.Replay == nil || !o.Replay.Confirmed {
			line += " no-failing-input-found"
		}
		fmt.Println(line)
		return 1
	}
	if strings.HasPrefix(name, "claimed obligations missing") {
		fmt.Println("govc replay: this file records a detached claim; run the check itself to see whether it attaches again")
		return 2
	}
	// self-contained experiment of the bounded tier
	if rec.ReplayKind == "bounded" && rec.ReplayData != nil && rec.ReplayData["spec"] != "" {
		o := &core.Obl{Name: name, Status: core.Refuted, Tier: "bounded", ReplayKind: "bounded", ReplayData: rec.ReplayData, Model: rec.Model, Witness: rec.Witness}
		replayers["bounded"](env, p, prop, o)
		if o.Replay != nil && !o.Replay.Confirmed {
			o.Status = core.Discharged
		}
		return report(o)
	}
	// regenerate: pick the engine (and function) the obligation belongs to
	var engine string
	var sel json.RawMessage
	switch {
	case strings.HasPrefix(name, "sweep/"):
		engine, sel = "sweep", cf.Engines["sweep"]
	case strings.HasPrefix(name, "bnd/") && cf.Engines["gotest"] != nil && rec.ReplayKind != "bounded":
		engine, sel = "gotest", cf.Engines["gotest"]
	case strings.HasPrefix(name, "bnd/"):
		engine, sel = "bounded", cf.Engines["bounded"]
	case strings.HasPrefix(name, "lemma/lean/"):
		engine, sel = "lean", cf.Engines["lean"]
	case strings.HasPrefix(name, "lemma/"):
		engine = "vc"
		sel, _ = json.Marshal(map[string][]string{"funcs": {}, "lemmas": {strings.TrimPrefix(name, "lemma/")}})
	default:
		engine = "vc"
		fn := name
		if i := strings.Index(fn, "/"); i > 0 {
			fn = fn[:i]
		}
		sel, _ = json.Marshal(map[string][]string{"funcs": {fn}, "lemmas": {}})
	}
	e := engines[engine]
	if e == nil || sel == nil {
		fmt.Fprintln(os.Stderr, "govc replay: property", prop, "has no engine", engine)
		return 2
	}
	r, err := e(env, p, prop, sel)
	if err != nil {
		fmt.Fprintf(os.Stderr, "govc: engine %s: %v\n", engine, err)
		return 2
	}
	for _, o := range r.Obls {
		if o.Name != name {
			continue
		}
		if o.Status == core.Refuted && o.Replay == nil {
			if rp := replayers[o.ReplayKind]; rp != nil {
				rp(env, p, prop, o)
			}
		}
		return report(o)
	}
	// the obligation is not generated any more: report what the function's obligations look like now
	bad := 0
	for _, o := range r.Obls {
		if o.Status != core.Discharged && !o.Canary {
			bad++
			fmt.Printf("FAILED-OBLIGATION %s [%s] %s\n", o.Name, o.Status, o.Detail)
		}
	}
	fmt.Printf("REPLAY property=%s obligation=%s: not generated on the current tree (%d other obligations of the same unit fail)\n", prop, name, bad)
	if bad > 0 {
		fmt.Printf("VIOLATION property=%s replay=%s no-failing-input-found\n", prop, path)
		return 1
	}
	return 0
}
