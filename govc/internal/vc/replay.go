package vc

import (
	"encoding/json"
	"fmt"
	"go/types"
	"os"
	"os/exec"
	"path/filepath"
	"sort"
	"strconv"
	"strings"
	"time"

	"golang.org/x/tools/go/ssa"

	"govc/internal/core"
	"govc/internal/load"
)

// Function-level counterexample replay (DESIGN 7) for functions of the operator shape
// func(ctx *Ctx, params []Value) (Value, error), with or without a struct receiver.

func isOpShape(fn *ssa.Function) (recv *ssa.Parameter, params *ssa.Parameter, ok bool) {
	ps := fn.Params
	sig := fn.Signature
	if sig.Results().Len() != 2 || !isErrorType(sig.Results().At(1).Type()) {
		return nil, nil, false
	}
	if sig.Recv() != nil {
		if len(ps) != 3 {
			return nil, nil, false
		}
		recv = ps[0]
		ps = ps[1:]
	}
	if len(ps) != 2 {
		return nil, nil, false
	}
	if _, isPtr := ps[0].Type().Underlying().(*types.Pointer); !isPtr {
		return nil, nil, false
	}
	sl, isSl := ps[1].Type().Underlying().(*types.Slice)
	if !isSl || sl.Elem().String() != "github.com/onheap/eval.Value" {
		return nil, nil, false
	}
	if recv != nil {
		if _, isStruct := recv.Type().Underlying().(*types.Struct); !isStruct {
			return nil, nil, false
		}
	}
	return recv, ps[1], true
}

// annotateReplay records, on the obligations of an operator-shaped function, what the replayer needs.
func (g *Gen) annotateReplay(obls []*core.Obl) {
	if strings.HasPrefix(g.key, "parser.") || g.key == "Compile" {
		for _, o := range obls {
			if !o.Canary {
				o.ReplayKind = "compile-probe"
			}
		}
		return
	}
	recv, params, ok := isOpShape(g.fn)
	if !ok || g.top == nil {
		return
	}
	data := map[string]string{"func": g.key, "params": g.top.val(params).S}
	if recv != nil {
		data["recv"] = g.top.val(recv).S
		data["recvType"] = recvTypeName(recv.Type())
	}
	lits, _ := json.Marshal(g.U.strOrder)
	data["strlits"] = string(lits)
	for i, o := range obls {
		if o.Canary {
			continue
		}
		d := map[string]string{}
		for k, v := range data {
			d[k] = v
		}
		if p := g.obls[i]; len(p.rets) == 2 {
			d["ret0"], d["ret1"] = p.rets[0], p.rets[1]
		}
		o.ReplayKind, o.ReplayData = "opfunc", d
	}
}

func recvTypeName(t types.Type) string {
	if n, ok := t.(*types.Named); ok {
		return n.Obj().Name()
	}
	return t.String()
}

type decoder struct {
	s    *core.Session
	lits []string
	next int
}

func (d *decoder) str(id string) string {
	n, err := strconv.Atoi(strings.TrimSpace(id))
	if err == nil && n >= 1 && n <= len(d.lits) {
		return d.lits[n-1]
	}
	return "s" + strings.NewReplacer("(", "", ")", "", " ", "", "-", "m").Replace(id)
}

func num(x *core.Sexp) string {
	if x.IsAtom() {
		return x.Atom
	}
	if len(x.List) == 2 && x.List[0].Atom == "-" {
		return "-" + num(x.List[1])
	}
	return "0"
}

// goValue renders the model value of an SMT term of sort Val as a Go expression.
func (d *decoder) goValue(term string) string {
	v := d.s.Value(term)
	sx, _, err := core.ParseSexp(v)
	if err != nil || sx == nil {
		return "nil"
	}
	if sx.IsAtom() {
		if sx.Atom == "VNil" {
			return "nil"
		}
		return "nil"
	}
	h := sx.Head()
	arg := func(i int) *core.Sexp {
		if i+1 < len(sx.List) {
			return sx.List[i+1]
		}
		return core.A("0")
	}
	switch h {
	case "V_int64":
		return "int64(" + num(arg(0)) + ")"
	case "V_bool":
		return arg(0).String()
	case "V_string":
		return strconv.Quote(d.str(num(arg(0))))
	case "V_dne":
		return "DNE"
	case "V_slice_int64", "V_slice_string":
		sl := arg(0)
		if len(sl.List) != 5 {
			return "nil"
		}
		arr, off, ln := sl.List[1].String(), sl.List[2].String(), num(sl.List[3])
		n, _ := strconv.Atoi(ln)
		if n > 400 {
			n = 400
		}
		base, typ := "E_int64!0", "[]int64"
		if h == "V_slice_string" {
			base, typ = "E_string!0", "[]string"
		}
		var terms []string
		for i := 0; i < n; i++ {
			terms = append(terms, fmt.Sprintf("(select (select %s %s) (+ %s %d))", base, arr, off, i))
		}
		vals := d.s.Values(terms)
		var parts []string
		for _, t := range terms {
			x, _, _ := core.ParseSexp(vals[t])
			e := "0"
			if x != nil {
				e = num(x)
			}
			if h == "V_slice_string" {
				e = strconv.Quote(d.str(e))
			}
			parts = append(parts, e)
		}
		return typ + "{" + strings.Join(parts, ", ") + "}"
	case "V_map_string_struct":
		return "map[string]struct{}{}"
	case "V_map_int64_struct":
		return "map[int64]struct{}{}"
	case "V_int", "V_int8", "V_int16", "V_int32", "V_uint8", "V_uint16", "V_uint32", "V_uint64":
		return strings.TrimPrefix(h, "V_") + "(" + num(arg(0)) + ")"
	}
	// a value of a type outside the supported set
	return "struct{ X string }{\"" + h + "\"}"
}

// ReplayOp replays the model of a refuted obligation of an operator-shaped function on the real code.
func ReplayOp(env *core.Env, p *load.Program, prop string, o *core.Obl) {
	d := o.ReplayData
	if d == nil || o.Query == "" {
		return
	}
	// prefer a small counterexample: first ask for one with few operands
	var sess *core.Session
	for _, extra := range []string{"(assert (<= (s_len " + d["params"] + ") 4))\n", "(assert (<= (s_len " + d["params"] + ") 120))\n", ""} {
		s2, err := core.NewSession("z3-new", 30)
		if err != nil {
			return
		}
		if r := s2.CheckSat(o.Query + extra); r == "sat" {
			sess = s2
			break
		}
		s2.Close()
	}
	if sess == nil {
		o.Replay = &core.ReplayResult{Confirmed: false, Output: "no model in the interactive session"}
		return
	}
	defer sess.Close()
	dec := &decoder{s: sess}
	json.Unmarshal([]byte(d["strlits"]), &dec.lits)
	ps := d["params"]
	lnS := sess.Value("(s_len " + ps + ")")
	lx, _, _ := core.ParseSexp(lnS)
	n := 0
	if lx != nil {
		n, _ = strconv.Atoi(num(lx))
	}
	if n > 300 {
		o.Replay = &core.ReplayResult{Confirmed: false, Output: fmt.Sprintf("model asks for %d operands; skipped", n)}
		return
	}
	var elems []string
	for i := 0; i < n; i++ {
		elems = append(elems, dec.goValue(fmt.Sprintf("(select (select E_Value!0 (s_arr %s)) (+ (s_off %s) %d))", ps, ps, i)))
	}
	call := ""
	key := d["func"]
	if rt := d["recvType"]; rt != "" {
		// receiver struct literal from the model
		rv := sess.Value(d["recv"])
		rx, _, _ := core.ParseSexp(rv)
		var fields []string
		if rx != nil && !rx.IsAtom() {
			if named := p.SSA.Type(rt); named != nil {
				if st, ok := named.Type().Underlying().(*types.Struct); ok {
					for i := 0; i < st.NumFields() && i+1 < len(rx.List); i++ {
						f := st.Field(i)
						val := num(rx.List[i+1])
						if b, ok := f.Type().Underlying().(*types.Basic); ok && b.Info()&types.IsString != 0 {
							val = strconv.Quote(dec.str(val))
						}
						fields = append(fields, f.Name()+": "+val)
					}
				}
			}
		}
		meth := key[strings.Index(key, ".")+1:]
		call = rt + "{" + strings.Join(fields, ", ") + "}." + meth + "(nil, params)"
	} else {
		call = key + "(nil, params)"
	}
	wantLine := ""
	if d["ret1"] != "" && o.Kind == "post" {
		en := sess.Value("(= " + d["ret1"] + " ENil)")
		want := dec.goValue(d["ret0"])
		wantLine = fmt.Sprintf("\t\twantErrNil, want := %s, Value(%s)\n\t\tfmt.Printf(\"REPLAY-MATCH: %%v (model predicts errnil=%%v val=%%#v)\\n\", (err == nil) == wantErrNil && (!wantErrNil || reflect.DeepEqual(res, want)), wantErrNil, want)\n", en, want)
	}
	imports := "\"fmt\"\n\t\"testing\""
	if wantLine != "" {
		imports += "\n\t\"reflect\""
	}
	src := fmt.Sprintf(`package eval

// generated by govc: replay of the solver's counterexample for obligation
//   %s
import (
	%s
)

func TestVerifReplay(t *testing.T) {
	params := []Value{%s}
	func() {
		defer func() {
			if r := recover(); r != nil {
				fmt.Printf("REPLAY-PANIC: %%v\n", r)
			}
		}()
		res, err := %s
		fmt.Printf("REPLAY-RESULT: val=%%#v errnil=%%v err=%%v\n", res, err == nil, err)
%s	}()
}
`, o.Name, imports, strings.Join(elems, ", "), call, wantLine)
	o.Witness = fmt.Sprintf("%s with params = []Value{%s}", call, strings.Join(elems, ", "))
	rdir := filepath.Join(env.Out, "replays", prop)
	os.MkdirAll(rdir, 0o755)
	base := filepath.Join(rdir, sanitizeSym(o.Name))
	testFile := base + "_replay_test.go.txt"
	os.WriteFile(testFile, []byte(src), 0o644)
	out, cmd := RunOverlayTest(env, testFile, "TestVerifReplay")
	res := &core.ReplayResult{Cmd: cmd, Output: tailLines(out, 12), TestFile: testFile}
	switch o.Kind {
	case "safety":
		res.Confirmed = strings.Contains(out, "REPLAY-PANIC")
	case "post":
		res.Confirmed = strings.Contains(out, "REPLAY-MATCH: true")
	}
	o.Replay = res
}

// RunOverlayTest injects testFile as an in-package test of the repository (nothing is written to it).
func RunOverlayTest(env *core.Env, testFile, run string) (string, string) {
	os.MkdirAll(env.Work, 0o755)
	ov := filepath.Join(env.Work, fmt.Sprintf("ov_%d.json", time.Now().UnixNano()))
	b, _ := json.Marshal(map[string]interface{}{"Replace": map[string]string{filepath.Join(env.Repo, "zz_verif_replay_test.go"): testFile}})
	os.WriteFile(ov, b, 0o644)
	defer os.Remove(ov)
	args := []string{"test", "-tags", "verif", "-overlay", ov, "-vet=off", "-timeout", "60s", "-count=1", "-v", "-run", "^" + run + "$", "."}
	cmd := exec.Command("go", args...)
	cmd.Dir = env.Repo
	cmd.Env = append(os.Environ(), "GOFLAGS=-mod=mod", "GOPROXY=off", "GOSUMDB=off", "GOTOOLCHAIN=local")
	out, _ := cmd.CombinedOutput()
	return string(out), "cd " + env.Repo + " && go " + strings.Join(args, " ")
}

func tailLines(s string, n int) string {
	ls := strings.Split(strings.TrimSpace(s), "\n")
	if len(ls) > n {
		ls = ls[len(ls)-n:]
	}
	return strings.Join(ls, "\n")
}

var _ = sort.Strings

// ReplayProbe: for safety obligations of the parser front end the solver's model is a token array /
// cursor state, not a source text.  The replay therefore probes the real Compile with a fixed corpus of
// pathological sources (empty, truncated, unbalanced, dangling operators, brackets) in both notations and
// confirms the violation when one of them panics; otherwise the violation is reported without an input.
func ReplayProbe(env *core.Env, p *load.Program, prop string, o *core.Obl) {
	src := `package eval

import (
	"fmt"
	"testing"
)

func TestVerifProbe(t *testing.T) {
	probes := []string{"", " ", ";; c", ";;;; optimize:false", "(", ")", "()", "(())", "(+", "(+ 1", "(+ 1 2", "+ 1 2)", "(1)", "(+ 1 2))", "((+ 1 2)", "(+ 1 (", "\"", "\"a", "(= \"a", "(= x \"", "[", "]", "1 + [", "[1", "[1 \"a\"]", "1 +", "+", "- 1", "!", "!!", "!a", "1 2 mod(+)", "mod(", "mod)", "mod(,", ",", "1 ,", "if(", "if(1", "(if)", "(if 1)", "(if 1 2 3 4)", "a b", "1 2", "(+ 1 2) (+ 1 2)", "(in 1 (", "(in 1 ()", "(overlap () (", ";", "(;", "(+ 1 ;; c", "(+ 1 2) ;; c", " ", "( + 1 2)", "(+ 1 2 )", "(and (", "(let", "(let 1)", "(any 1)"}
	for _, infix := range []bool{false, true} {
		for _, s := range probes {
			func() {
				defer func() {
					if r := recover(); r != nil {
						fmt.Printf("PROBE-PANIC infix=%v source=%q: %v\n", infix, s, r)
					}
				}()
				cc := NewConfig()
				cc.CompileOptions[InfixNotation] = infix
				cc.CompileOptions[AllowUndefinedVariable] = true
				e, err := Compile(cc, s)
				if (e == nil) == (err == nil) {
					fmt.Printf("PROBE-PANIC infix=%v source=%q: program and error both nil or both set\n", infix, s)
				}
				if e != nil {
					Dump(e)
					DumpTable(e, false)
				}
			}()
		}
	}
}
`
	rdir := filepath.Join(env.Out, "replays", prop)
	os.MkdirAll(rdir, 0o755)
	testFile := filepath.Join(rdir, sanitizeSym(o.Name)+"_probe_test.go.txt")
	os.WriteFile(testFile, []byte(src), 0o644)
	out, cmd := RunOverlayTest(env, testFile, "TestVerifProbe")
	res := &core.ReplayResult{Cmd: cmd, TestFile: testFile}
	var hits []string
	for _, l := range strings.Split(out, "\n") {
		if strings.HasPrefix(l, "PROBE-PANIC") {
			hits = append(hits, l)
		}
	}
	if len(hits) > 0 {
		res.Confirmed = true
		res.Output = strings.Join(hits, "\n")
		if len(hits) > 6 {
			res.Output = strings.Join(hits[:6], "\n") + fmt.Sprintf("\n... %d more", len(hits)-6)
		}
		o.Witness = hits[0]
	} else {
		res.Output = "no probe source makes Compile panic: " + tailLines(out, 3)
	}
	o.Replay = res
}
