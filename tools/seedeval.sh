#!/bin/sh
# Evaluates one seeded change directory (patch.diff, demo_test.go, meta.json):
#  1. on a scratch copy of /repo: patch applies, builds, the repository's test suite passes,
#     the demonstration fails with the change and passes without it;
#  2. the property's quick check, pointed at the scratch copy, must exit 1 with a VIOLATION line.
# Usage: tools/seedeval.sh <dir> [property-override]   -> prints one result line, writes <dir>/eval.json
cd "$(dirname "$0")/.." || exit 2
export GOFLAGS=-mod=mod GOPROXY=off GOSUMDB=off GOTOOLCHAIN=local
d="$1"; prop="${2:-$(jq -r .property "$d/meta.json")}"
name=$(basename "$d")
s=$(mktemp -d /tmp/verif-seed.XXXXXX)
cp /repo/*.go /repo/go.mod /repo/go.sum "$s"/
applies=no; builds=no; suite=no; demofail=no; demopass=no; detected=no; oblig=""
if (cd "$s" && patch -s -p1 --no-backup-if-mismatch < "$d/patch.diff" >/dev/null 2>&1); then applies=yes; fi
if [ $applies = yes ] && (cd "$s" && go build ./... 2>/dev/null); then builds=yes; fi
if [ $builds = yes ]; then
  (cd "$s" && go test -vet=off -count=1 ./... >/dev/null 2>&1) && suite=yes
  tname=$(grep -o 'func Test[A-Za-z0-9_]*' "$d/demo_test.go" | head -1 | sed 's/func //')
  cp "$d/demo_test.go" "$s/zz_demo_test.go"
  (cd "$s" && go test -vet=off -count=1 -run "^$tname\$" . >/dev/null 2>&1) || demofail=yes
  rm -f "$s/zz_demo_test.go"
  p=$(mktemp -d /tmp/verif-seedp.XXXXXX); cp /repo/*.go /repo/go.mod /repo/go.sum "$p"/; cp "$d/demo_test.go" "$p/zz_demo_test.go"
  (cd "$p" && go test -vet=off -count=1 -run "^$tname\$" . >/dev/null 2>&1) && demopass=yes
  rm -rf "$p"
  out=$(VERIF_REPO="$s" VERIF_OUT="$s/out" bin/govc check "$prop" 2>&1); rc=$?
  if [ $rc -eq 1 ] && echo "$out" | grep -q "^VIOLATION property=$prop"; then detected=yes; fi
  oblig=$(echo "$out" | grep "^FAILED-OBLIGATION" | head -3 | cut -c1-260 | tr '\n\t' '| ' | tr -d '\000-\010\013-\037' | tr '"\\' "'/")
  nviol=$(echo "$out" | grep -c "^VIOLATION")
fi
rm -rf "$s"
printf '{"seed":"%s","property":"%s","applies":"%s","builds":"%s","suite_passes":"%s","demo_fails_with":"%s","demo_passes_without":"%s","detected":"%s","violations":"%s","first_failed":"%s"}\n' "$name" "$prop" $applies $builds $suite $demofail $demopass $detected "${nviol:-0}" "$oblig" > "$d/eval.json"
echo "$name prop=$prop applies=$applies builds=$builds suite=$suite demo_fails=$demofail demo_passes_clean=$demopass DETECTED=$detected :: $(echo "$oblig" | cut -c1-200)"
