package main

import (
	"crypto/sha256"
	"encoding/hex"
	"encoding/json"
	"os"
	"os/exec"
	"path/filepath"
	"strings"
	"time"

	"govc/internal/core"
	"govc/internal/load"
)

// engine "lean": checks a Lean 4 + Mathlib file (a purely mathematical lemma used as a named axiom on the
// SMT side).  The thorough tier always runs lean; the quick tier accepts a file whose sha256 equals the one
// recorded next to it by an earlier accepted run (<file>.ok) and otherwise runs lean as well.
func init() {
	engines["lean"] = func(env *core.Env, p *load.Program, prop string, sel json.RawMessage) (*core.Result, error) {
		var files []string
		if err := json.Unmarshal(sel, &files); err != nil {
			return nil, err
		}
		res := &core.Result{}
		for _, f := range files {
			path := filepath.Join(env.Verif, f)
			o := &core.Obl{Name: "lemma/lean/" + strings.TrimSuffix(filepath.Base(f), ".lean"), Kind: "lemma", Tier: core.Proved, Solver: "lean", Detail: "Lean 4 + Mathlib accepts " + f}
			b, err := os.ReadFile(path)
			if err != nil {
				o.Status, o.Output = core.Rejected, err.Error()
				res.Obls = append(res.Obls, o)
				continue
			}
			h := sha256.Sum256(b)
			hs := hex.EncodeToString(h[:])
			okFile := path + ".ok"
			if rec, err := os.ReadFile(okFile); err == nil && strings.TrimSpace(string(rec)) == hs && env.Tier != "thorough" {
				o.Status = core.Discharged
				o.Solver = "lean (accepted earlier; file unchanged, sha256 recorded in " + filepath.Base(okFile) + ")"
				res.Obls = append(res.Obls, o)
				continue
			}
			t0 := time.Now()
			cmd := exec.Command("lean", path)
			out, err := cmd.CombinedOutput()
			o.TimeS = time.Since(t0).Seconds()
			if err == nil && !strings.Contains(string(out), "error") {
				o.Status = core.Discharged
				if env.Out == env.Verif {
					os.WriteFile(okFile, []byte(hs+"\n"), 0o644)
				}
			} else {
				o.Status = core.Refuted
				o.Output = string(out)
			}
			res.Obls = append(res.Obls, o)
		}
		res.Trusted = append(res.Trusted, "Lean 4.33 kernel + Mathlib for the lemma files")
		return res, nil
	}
}
