package vc

import (
	"encoding/json"
	"fmt"
	"regexp"
	"sort"
	"strings"

	"golang.org/x/tools/go/ssa"

	"govc/internal/core"
	"govc/internal/load"
)

// Engine is one proof-tier run over a set of functions.
type Engine struct {
	P         *load.Program
	U         *Universe
	Spec      *Spec
	Env       *core.Env
	baseInfos map[string]*baseInfo
	usedStubs map[string]bool
	modsets   map[*ssa.Function]map[string]bool
	modBusy   map[*ssa.Function]bool
	assumed   map[string]bool
	ghostDefs []ghostDef
	refNames  map[string][]nameEntry       // claims/names.json: recorded variable skeletons of the reference tree
	renames   map[string]map[string]string // per function: recorded name -> current name (renamed locals)
}

func NewEngine(env *core.Env, p *load.Program) *Engine {
	e := &Engine{P: p, U: NewUniverse(), Env: env, baseInfos: map[string]*baseInfo{}, usedStubs: map[string]bool{},
		modsets: map[*ssa.Function]map[string]bool{}, modBusy: map[*ssa.Function]bool{}, assumed: map[string]bool{}}
	e.Spec = ParseSpec(p.ContractLines)
	var fns []*ssa.Function
	for _, f := range p.Funcs {
		fns = append(fns, f)
	}
	sort.Slice(fns, func(i, j int) bool { return p.Keys[fns[i]] < p.Keys[fns[j]] })
	e.U.Prescan(fns)
	return e
}

func (e *Engine) newGen(key string, fn *ssa.Function, dry bool, loopMods map[string]map[string]bool) *Gen {
	g := &Gen{P: e.P, U: e.U, Spec: e.Spec, Eng: e, key: key, fn: fn, con: e.Spec.Contracts[key],
		declared: map[string]bool{}, bases: map[string]*baseInfo{}, anchors: map[string]int{}, dry: dry,
		cellClo: map[string]*Closure{}, loopMods: loopMods, usedAssumptions: map[string]bool{}}
	if g.loopMods == nil {
		g.loopMods = map[string]map[string]bool{}
	}
	return g
}

// translate runs the translation of fn as a top-level function (dry: no spec, only effects).
func (e *Engine) translate(key string, fn *ssa.Function, dry bool, loopMods map[string]map[string]bool) *Gen {
	g := e.newGen(key, fn, dry, loopMods)
	fr := g.newFrame(fn, nil, nil)
	g.top = fr
	entry := &state{cur: "true", heap: map[string]string{}}
	n0 := g.base(entry, "next", "Int", 0, false)
	g.assert("(>= " + n0 + " 1)")
	var params []*Term
	for _, p := range fn.Params {
		params = append(params, fr.symbolic("p_"+p.Name(), p.Type(), entry))
	}
	for _, fv := range fn.FreeVars {
		fr.env[fv] = fr.symbolic("fv_"+fv.Name(), fv.Type(), entry)
		g.assert("(> " + fr.env[fv].S + " 0)")
	}
	for i, p := range fn.Params {
		fr.env[p] = params[i]
	}
	fr.entry = entry
	if !dry && g.con != nil {
		for _, u := range g.con.Uses {
			found := false
			for i, ax := range e.Spec.Axioms {
				if e.Spec.AxiomNames[i] == u {
					// named axioms may use the specification forms (global, fld, ...): translated in the entry state
					sx, _, err := core.ParseSexp(ax)
					if err != nil || sx == nil {
						g.rejectf("axiom %s does not parse", u)
						continue
					}
					sc := &specCtx{fr: fr, st: entry, old: entry}
					t := sc.tr(sx)
					if sc.err != "" {
						g.rejectf("axiom %s: %s", u, sc.err)
						continue
					}
					g.assert(t)
					found = true
				}
			}
			if !found {
				g.rejectf("uses %s: no such axiom", u)
			}
		}
		for _, r := range g.con.Requires {
			sc := &specCtx{fr: fr, st: entry, old: entry}
			t := sc.tr(r.Expr)
			if sc.err != "" {
				g.rejectf("requires [%s] of %s: %s", r.Label, key, sc.err)
				continue
			}
			g.assert(t)
		}
	}
	fr.run(params, entry)
	for k, bi := range g.bases {
		if _, ok := e.baseInfos[k]; !ok {
			e.baseInfos[k] = bi
		}
	}
	return g
}

// fixpoint of the loop mod sets, then the real translation.
func (e *Engine) translateFix(key string, fn *ssa.Function, dry bool) *Gen {
	loopMods := map[string]map[string]bool{}
	for i := 0; i < 8; i++ {
		g := e.translate(key, fn, true, loopMods)
		if !g.modGrew {
			break
		}
	}
	if dry {
		return e.translate(key, fn, true, loopMods)
	}
	return e.translate(key, fn, false, loopMods)
}

// modset: heap components a function may modify (non-local bases changed at some return).
func (e *Engine) modset(fn *ssa.Function) map[string]bool {
	if m, ok := e.modsets[fn]; ok {
		return m
	}
	if e.modBusy[fn] {
		return map[string]bool{}
	}
	e.modBusy[fn] = true
	var m map[string]bool
	for round := 0; round < 3; round++ {
		g := e.translateFix(e.P.Keys[fn], fn, true)
		nm := map[string]bool{}
		for _, r := range g.top.rets {
			for k, v := range r.st.heap {
				bi := g.bases[k]
				if bi != nil && bi.local {
					continue
				}
				if v != k+"!0" {
					nm[k] = true
				}
			}
		}
		// loops that never exit normally still modify
		for _, lm := range g.loopMods {
			for k := range lm {
				if bi := g.bases[k]; bi != nil && !bi.local {
					nm[k] = true
				}
			}
		}
		same := m != nil && len(m) == len(nm)
		if same {
			for k := range nm {
				if !m[k] {
					same = false
				}
			}
		}
		m = nm
		e.modsets[fn] = m // provisional, lets recursion see the current approximation
		if same {
			break
		}
	}
	delete(e.modBusy, fn)
	e.modsets[fn] = m
	return m
}

// VerifyFunc generates the obligations of one function under contract.
func (e *Engine) VerifyFunc(key string) (*Gen, core.FuncInfo) {
	fn := e.P.Lookup(key)
	fi := core.FuncInfo{Name: key}
	if fn == nil {
		fi.Rejected = "no such function in the current tree"
		return nil, fi
	}
	fi.File = e.P.PosString(fn.Pos())
	for _, b := range fn.Blocks {
		fi.SSAInstrs += len(b.Instrs)
	}
	g := e.translateFix(key, fn, false)
	fr := g.top
	fi.Loops = len(fr.heads)
	if g.con != nil {
		fi.Requires, fi.Ensures = len(g.con.Requires), len(g.con.Ensures)
		for _, l := range g.con.Loops {
			fi.Invariants += len(l.Invariants)
		}
		for ord := range g.con.Loops {
			if ord > len(fr.heads) {
				g.rejectf("contract of %s names loop %d but the function has %d loops", key, ord, len(fr.heads))
			}
		}
		// postconditions at every return
		for ri, r := range fr.rets {
			for _, en := range g.con.Ensures {
				sc := &specCtx{fr: fr, st: r.st, old: fr.entry, rets: r.vals, retNames: resultNames(fn), block: r.block}
				t := sc.tr(en.Expr)
				if sc.err != "" {
					g.rejectf("ensures [%s] of %s: %s", en.Label, key, sc.err)
					continue
				}
				st := &state{cur: r.cond, heap: r.st.heap}
				g.horizon = r.hz
				g.addObl(fr, st, "post", fmt.Sprintf("%s/ret%d", en.Label, ri+1), "postcondition "+en.Label+" at return "+fmt.Sprint(ri+1), r.pos, t)
				var rs []string
				for _, v := range r.vals {
					rs = append(rs, v.S)
				}
				g.obls[len(g.obls)-1].rets = rs
				g.horizon = 0
			}
		}
	}
	// declared frame: the inferred set of modified heap components must be within the assigns clause
	if g.con != nil && len(g.con.Assigns) > 0 {
		var allowed []string
		for _, a := range g.con.Assigns {
			allowed = append(allowed, strings.Fields(a)...)
		}
		mods := map[string]bool{}
		for _, r := range fr.rets {
			for k, v := range r.st.heap {
				if bi := g.bases[k]; bi != nil && !bi.local && v != k+"!0" {
					mods[k] = true
				}
			}
		}
		for _, lm := range g.loopMods {
			for k := range lm {
				if bi := g.bases[k]; bi != nil && !bi.local {
					mods[k] = true
				}
			}
		}
		var bad []string
		for k := range mods {
			ok := false
			for _, a := range allowed {
				if a == k || (strings.HasSuffix(a, "*") && strings.HasPrefix(k, strings.TrimSuffix(a, "*"))) {
					ok = true
				}
			}
			if !ok {
				bad = append(bad, k)
			}
		}
		sort.Strings(bad)
		p := &pending{name: key + "/frame/assigns", kind: "frame", detail: "heap components modified (inferred from every store/map update/call in the translated SSA) are within the assigns clause: " + strings.Join(allowed, " ")}
		if len(bad) == 0 {
			p.decided = "ok"
		} else {
			p.decided = "fail"
			p.detail += "; modified outside the frame: " + strings.Join(bad, ", ")
		}
		g.obls = append(g.obls, p)
	}
	// canary: some exit is reachable under the accumulated assumptions
	var conds []string
	for _, r := range fr.rets {
		conds = append(conds, r.cond)
	}
	if len(conds) > 0 {
		g.obls = append(g.obls, &pending{name: key + "/canary/exit-reachable", kind: "canary", detail: "some return is reachable under requires + invariants + stubs (vacuity guard)",
			cond: "(or " + strings.Join(conds, " ") + ")", canary: true})
	}
	// loop-exit canaries
	for h, ord := range fr.heads {
		if st := fr.headSt[h]; st != nil {
			g.obls = append(g.obls, &pending{name: fmt.Sprintf("%s/canary/loop%d-head-reachable", key, ord), kind: "canary", detail: "the loop head is reachable with the invariant assumed (vacuity guard)",
				cond: st.cur, canary: true})
		}
	}
	fi.Rejected = g.reject
	return g, fi
}

// Selection is the engine-specific part of claims/<ID>.json.
type Selection struct {
	Funcs  []string `json:"funcs"`
	Lemmas []string `json:"lemmas"`
}

// Run is the engine entry used by `govc check`.
func Run(env *core.Env, p *load.Program, prop string, sel json.RawMessage) (*core.Result, error) {
	var s Selection
	if err := json.Unmarshal(sel, &s); err != nil {
		return nil, err
	}
	e := NewEngine(env, p)
	return e.RunSelection(s)
}

func (e *Engine) RunSelection(s Selection) (*core.Result, error) {
	res := &core.Result{Extra: map[string]interface{}{}}
	if len(e.Spec.Errors) > 0 {
		return nil, fmt.Errorf("contract file: %s", strings.Join(e.Spec.Errors, "; "))
	}
	var gens []*Gen
	for _, key := range s.Funcs {
		g, fi := e.VerifyFunc(key)
		res.Funcs = append(res.Funcs, fi)
		if g == nil || fi.Rejected != "" {
			res.Obls = append(res.Obls, &core.Obl{Name: key + "/translation", Func: key, Kind: "translation", Tier: core.Proved, Status: core.Rejected,
				Detail: "function cannot be translated: " + fi.Rejected, Output: fi.Rejected})
			continue
		}
		gens = append(gens, g)
	}
	prelude := e.Prelude()
	for _, g := range gens {
		res.Obls = append(res.Obls, g.finish(prelude)...)
		for a := range g.usedAssumptions {
			e.assumed[a] = true
		}
	}
	// lemmas
	for _, name := range s.Lemmas {
		found := false
		for _, l := range e.Spec.Lemmas {
			if l.Name == name {
				found = true
				res.Obls = append(res.Obls, &core.Obl{Name: "lemma/" + name, Kind: "lemma", Tier: core.Proved, Detail: "lemma " + name + " (pure SMT over the specification vocabulary)",
					Query: prelude + e.GhostFor(e.substStrLits(l.Script)) + e.substStrLits(l.Script) + "\n"})
			}
		}
		if !found {
			res.Obls = append(res.Obls, &core.Obl{Name: "lemma/" + name, Kind: "lemma", Tier: core.Proved, Status: core.Rejected, Detail: "lemma not found in the contract file"})
		}
	}
	core.RunAll(e.Env, res.Obls, nil)
	res.Trusted = append(res.Trusted, StubDocs(e.usedStubs)...)
	for _, a := range e.Spec.Axioms {
		res.Trusted = append(res.Trusted, "axiom (contract file): "+strings.Join(strings.Fields(a), " "))
	}
	for a := range e.assumed {
		res.Assumptions = append(res.Assumptions, a)
	}
	sort.Strings(res.Assumptions)
	res.Assumptions = append(res.Assumptions,
		"integers are mathematical Ints with explicit two's-complement wrap at every operation; float64 is Real (IEEE rounding and NaN not modelled)",
		"strings are uninterpreted identities with uninterpreted length/concatenation; error values are opaque identities",
		"no allocation failure / stack exhaustion; goroutines, select and channel blocking are not modelled",
		"heap model: typed component arrays (Burstall), distinct Go types never alias (no unsafe/cgo in the package)")
	return res, nil
}

// Prelude = generated universe prelude + ghost definitions + axioms of the contract file.
func (e *Engine) Prelude() string {
	// ghost definitions are NOT part of the common prelude: each query gets only the ones it mentions
	// (GhostFor), so that adding a definition for one function cannot change the solvers' behaviour on another
	e.ghostDefs = nil
	for _, gd := range e.Spec.Ghost {
		txt := e.substStrLits(gd)
		d := ghostDef{text: txt, uses: map[string]bool{}}
		if sx, _, err := core.ParseSexp(txt); err == nil && sx != nil && !sx.IsAtom() && len(sx.List) >= 2 && sx.List[1].IsAtom() {
			d.name = sx.List[1].Atom
		}
		for _, tok := range symbolTokens(txt) {
			d.uses[tok] = true
		}
		e.ghostDefs = append(e.ghostDefs, d)
	}
	var tail strings.Builder
	for i, ax := range e.Spec.Axioms {
		if e.Spec.AxiomNames[i] == "" {
			tail.WriteString("(assert " + e.substStrLits(ax) + ")\n")
		}
	}
	return e.U.Prelude() + tail.String()
}

type ghostDef struct {
	name, text string
	uses       map[string]bool
}

var symTokRe = regexp.MustCompile(`[A-Za-z_][A-Za-z0-9_.!]*`)

func symbolTokens(s string) []string { return symTokRe.FindAllString(s, -1) }

// GhostFor returns the ghost declarations/definitions (in file order) that body mentions, transitively.
func (e *Engine) GhostFor(body string) string {
	need := map[string]bool{}
	toks := map[string]bool{}
	for _, t := range symbolTokens(body) {
		toks[t] = true
	}
	changed := true
	for changed {
		changed = false
		for i := range e.ghostDefs {
			d := &e.ghostDefs[i]
			if d.name == "" || need[d.name] {
				continue
			}
			if toks[d.name] {
				need[d.name] = true
				changed = true
				for u := range d.uses {
					toks[u] = true
				}
			}
		}
	}
	var sb strings.Builder
	for _, d := range e.ghostDefs {
		if d.name == "" || need[d.name] {
			sb.WriteString(d.text + "\n")
		}
	}
	return sb.String()
}

// substStrLits replaces "literal" tokens by their string ids in ghost text.
func (e *Engine) substStrLits(s string) string {
	xs, err := core.ParseAll(s)
	if err != nil {
		return s
	}
	var out []string
	for _, x := range xs {
		y := x.Map(func(n *core.Sexp) *core.Sexp {
			if n.IsAtom() && n.Atom == "#quote" {
				return core.A(e.U.StrLit("\""))
			}
			if n.IsAtom() && strings.HasPrefix(n.Atom, "\"") && strings.HasSuffix(n.Atom, "\"") && len(n.Atom) >= 2 {
				return core.A(e.U.StrLit(n.Atom[1 : len(n.Atom)-1]))
			}
			return n
		})
		out = append(out, y.String())
	}
	return strings.Join(out, "\n")
}
