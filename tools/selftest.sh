#!/bin/sh
# Must-fail corpus (DESIGN section 11): every mutant must compile, (optionally) pass the repository's
# own tests, and make the named property check exit 1 with a VIOLATION on the named obligation.
# Usage: tools/selftest.sh [--with-tests] [name-filter]
cd "$(dirname "$0")/.." || exit 2
export GOFLAGS=-mod=mod GOPROXY=off GOSUMDB=off GOTOOLCHAIN=local
withtests=0; filter=""
for a in "$@"; do case "$a" in --with-tests) withtests=1;; *) filter="$a";; esac; done
[ -x bin/govc ] || (cd govc && go build -o ../bin/govc .) || exit 2
fail=0; n=0
for meta in selftest/mutants/*.json; do
  [ -e "$meta" ] || continue
  name=$(basename "$meta" .json)
  case "$name" in *"$filter"*) ;; *) continue;; esac
  patch="selftest/mutants/$name.patch"
  props=$(jq -r '.properties | join(" ")' "$meta")
  expect=$(jq -r '.expect_obligation' "$meta")
  d=$(mktemp -d /tmp/verif-selftest.XXXXXX)
  cp /repo/*.go /repo/go.mod /repo/go.sum "$d"/
  if ! (cd "$d" && patch -s -p1 < "/verif/$patch"); then echo "SELFTEST $name: patch does not apply"; fail=1; rm -rf "$d"; continue; fi
  if ! (cd "$d" && go build ./... 2>/dev/null); then echo "SELFTEST $name: mutant does not compile"; fail=1; rm -rf "$d"; continue; fi
  if [ $withtests = 1 ]; then
    if ! (cd "$d" && go test -vet=off -count=1 ./... >/dev/null 2>&1); then echo "SELFTEST $name: NOTE mutant does not pass the repository tests"; fi
  fi
  for p in $props; do
    n=$((n+1))
    out=$(VERIF_REPO="$d" VERIF_OUT="$d/out" bin/govc check "$p" 2>&1); rc=$?
    if [ $rc -eq 1 ] && echo "$out" | grep -q "^VIOLATION property=$p" && echo "$out" | grep -F -q "$expect"; then
      echo "SELFTEST $name/$p: detected ($(echo "$out" | grep -F "$expect" | head -1 | cut -c1-150))"
    else
      echo "SELFTEST $name/$p: MISSED (exit $rc)"; echo "$out" | tail -5; fail=1
    fi
  done
  rm -rf "$d"
done
echo "selftest: $n mutant checks, fail=$fail"
exit $fail
