package main

import (
	"fmt"
	"os"
	"sort"
	"strings"

	"govc/internal/core"
	"govc/internal/load"
	"govc/internal/vc"
)

func init() {
	engines["vc"] = vc.Run
	replayers["compile-probe"] = func(env *core.Env, p *load.Program, prop string, o *core.Obl) { vc.ReplayProbe(env, p, prop, o) }
	replayers["opfunc"] = func(env *core.Env, p *load.Program, prop string, o *core.Obl) { vc.ReplayOp(env, p, prop, o) }
}

// govc vc [-q] [-dump dir] key... : development entry for the proof tier
func cmdVC(args []string) int {
	env := core.EnvFromOS("dev")
	env.SetTier(env.Tier)
	env.Verbose = true
	var keys []string
	dump := ""
	only := ""
	for i := 0; i < len(args); i++ {
		switch args[i] {
		case "-q":
			env.Verbose = false
		case "-dump":
			dump = args[i+1]
			i++
		case "-only":
			only = args[i+1]
			i++
		case "-t":
			fmt.Sscan(args[i+1], &env.TimeoutS)
			i++
		default:
			keys = append(keys, args[i])
		}
	}
	p, err := load.Load(env.Repo)
	if err != nil {
		fmt.Fprintln(os.Stderr, "load:", err)
		return 2
	}
	e := vc.NewEngine(env, p)
	if len(e.Spec.Errors) > 0 {
		fmt.Fprintln(os.Stderr, "contract errors:\n  "+strings.Join(e.Spec.Errors, "\n  "))
	}
	var lemmas []string
	var funcs []string
	for _, k := range keys {
		if strings.HasPrefix(k, "lemma:") {
			lemmas = append(lemmas, strings.TrimPrefix(k, "lemma:"))
		} else if k == "--all" {
			for _, k := range e.Spec.Order {
				if c := e.Spec.Contracts[k]; c != nil && !c.Inline {
					funcs = append(funcs, k)
				}
			}
			for _, l := range e.Spec.Lemmas {
				lemmas = append(lemmas, l.Name)
			}
		} else {
			funcs = append(funcs, k)
		}
	}
	_ = only
	os.MkdirAll(env.Work, 0o755)
	res, err := e.RunSelection(vc.Selection{Funcs: funcs, Lemmas: lemmas})
	if err != nil {
		fmt.Fprintln(os.Stderr, err)
		return 2
	}
	sort.SliceStable(res.Obls, func(i, j int) bool { return res.Obls[i].Name < res.Obls[j].Name })
	bad := 0
	for _, o := range res.Obls {
		if o.Status == core.Refuted && o.ReplayKind != "" && os.Getenv("REPLAY") != "" {
			vc.ReplayOp(env, p, "dev", o)
			if o.Replay != nil {
				fmt.Printf("  replay %s: confirmed=%v witness=%s\n    %s\n", o.Name, o.Replay.Confirmed, o.Witness, strings.ReplaceAll(o.Replay.Output, "\n", "\n    "))
			}
		}
		if o.Status != core.Discharged {
			bad++
			fmt.Printf("  %-12s %-80s %s %.2fs %s\n", o.Status, o.Name, o.Solver, o.TimeS, firstLine(o.Output))
			if dump != "" {
				os.MkdirAll(dump, 0o755)
				os.WriteFile(dump+"/"+sanitizeName(o.Name)+".smt2", []byte(core.FullText(core.Query{Text: o.Query})), 0o644)
			}
		} else if dump != "" && os.Getenv("DUMPALL") != "" {
			os.MkdirAll(dump, 0o755)
			os.WriteFile(dump+"/"+sanitizeName(o.Name)+".smt2", []byte(core.FullText(core.Query{Text: o.Query})), 0o644)
		}
	}
	for _, f := range res.Funcs {
		fmt.Printf("func %-40s instrs=%d loops=%d req=%d ens=%d inv=%d %s\n", f.Name, f.SSAInstrs, f.Loops, f.Requires, f.Ensures, f.Invariants, f.Rejected)
	}
	fmt.Printf("%d obligations, %d not discharged\n", len(res.Obls), bad)
	if bad > 0 {
		return 1
	}
	return 0
}

func firstLine(s string) string {
	if i := strings.Index(s, "\n"); i >= 0 {
		s = s[:i]
	}
	if len(s) > 100 {
		s = s[:100]
	}
	return s
}

func sanitizeName(s string) string {
	r := strings.NewReplacer("/", "_", " ", "_", "(", "_", ")", "_", "[", "_", "]", "_", "*", "_", ":", "_", "\"", "_", "'", "_", ">", "_", "<", "_", "&", "_", "|", "_", "$", "_")
	s = r.Replace(s)
	if len(s) > 150 {
		s = s[:150]
	}
	return s
}
