package bounded

// Replay: a refuted obligation's model is decoded into a concrete binding
// (table-driven fetcher / custom operators) and run on the REAL code by an
// in-package test injected with -overlay; an independent Go reference
// evaluator in the harness decides whether the real code disagrees with the
// specification on that input.

import (
	"bufio"
	"bytes"
	"encoding/json"
	"fmt"
	"os"
	"os/exec"
	"path/filepath"
	"regexp"
	"sort"
	"strconv"
	"strings"
	"sync"
	"sync/atomic"

	"govc/internal/core"
	"govc/internal/load"
)

// RVal is a concrete value of the binding.
type RVal struct {
	K string `json:"k"` // nil bool int str
	B bool   `json:"b,omitempty"`
	I int64  `json:"i,omitempty"`
	S string `json:"s,omitempty"`
}

func (v RVal) String() string {
	switch v.K {
	case "nil":
		return "nil"
	case "bool":
		return strconv.FormatBool(v.B)
	case "int":
		return strconv.FormatInt(v.I, 10)
	case "str":
		return strconv.Quote(v.S)
	}
	return "?" + v.K
}

// RBind: what Get returns for a variable: a value, or the error named E.
type RBind struct {
	V RVal   `json:"v"`
	E string `json:"e,omitempty"`
}

func (b RBind) String() string {
	if b.E != "" {
		return "error#" + b.E
	}
	return b.V.String()
}

type ROp struct {
	Args []RVal `json:"a"`
	V    RVal   `json:"v"`
	E    string `json:"e,omitempty"`
}

// ReplaySpec is one concrete experiment for the harness.
type ReplaySpec struct {
	ID     int               `json:"id"`
	Rel    string            `json:"rel"`
	Method string            `json:"method,omitempty"`
	Src    string            `json:"src"`
	Mask   int               `json:"mask"`
	Ev     bool              `json:"ev"`
	Costs  string            `json:"costs,omitempty"`
	Undef  bool              `json:"undef,omitempty"`
	Vars   map[string]RBind  `json:"vars,omitempty"`   // "name" or "name@key"
	Avail  map[string]bool   `json:"avail,omitempty"`  // missing = available
	Vars2  map[string]RBind  `json:"vars2,omitempty"`  // completion binding
	Avail2 map[string]bool   `json:"avail2,omitempty"` // second availability (monotonicity)
	Ops    map[string][]ROp  `json:"ops,omitempty"`
	Extra  map[string]string `json:"extra,omitempty"`
}

// ReplayOut is the harness verdict.
type ReplayOut struct {
	ID        int    `json:"id"`
	Confirmed bool   `json:"confirmed"`
	Got       string `json:"got"`
	Want      string `json:"want"`
	Detail    string `json:"detail"`
}

// ---------------------------------------------------------------- model decoding

var reNeg = regexp.MustCompile(`^\(- (\d+)\)$`)

func parseModelInt(s string) (int64, bool) {
	s = strings.TrimSpace(s)
	if m := reNeg.FindStringSubmatch(s); m != nil {
		n, err := strconv.ParseInt("-"+m[1], 10, 64)
		return n, err == nil
	}
	n, err := strconv.ParseInt(s, 10, 64)
	return n, err == nil
}

// decodeVal turns a printed Val into an RVal. ok=false: not representable.
func decodeVal(s string) (RVal, bool) {
	sx, _, err := core.ParseSexp(s)
	if err != nil || sx == nil {
		return RVal{}, false
	}
	if sx.IsAtom() {
		switch sx.Atom {
		case "VNil":
			return RVal{K: "nil"}, true
		}
		return RVal{}, false
	}
	if len(sx.List) == 1 && sx.List[0].IsAtom() { // (VNil) as printed by some solvers
		if sx.List[0].Atom == "VNil" {
			return RVal{K: "nil"}, true
		}
		return RVal{}, false
	}
	if len(sx.List) != 2 {
		return RVal{}, false
	}
	arg := sx.List[1].String()
	switch sx.List[0].Atom {
	case "VBool":
		return RVal{K: "bool", B: arg == "true"}, true
	case "VInt":
		n, ok := parseModelInt(arg)
		return RVal{K: "int", I: n}, ok
	case "VStr":
		n, ok := parseModelInt(arg)
		if !ok {
			return RVal{}, false
		}
		if str, known := StrOf(n); known {
			return RVal{K: "str", S: str}, true
		}
		return RVal{K: "str", S: fmt.Sprintf("s%d", n)}, true
	}
	return RVal{}, false
}

func decodeErr(s string) string {
	sx, _, err := core.ParseSexp(s)
	if err != nil || sx == nil {
		return "?"
	}
	if sx.IsAtom() {
		if sx.Atom == "ENil" {
			return ""
		}
		return "?"
	}
	if len(sx.List) == 1 {
		return ""
	}
	if len(sx.List) == 2 && sx.List[0].Atom == "EErr" {
		n, _ := parseModelInt(sx.List[1].String())
		return strconv.FormatInt(n, 10)
	}
	if len(sx.List) == 2 && sx.List[0].Atom == "EBuiltin" {
		n, _ := parseModelInt(sx.List[1].String())
		return "builtin" + strconv.FormatInt(n, 10)
	}
	return "?"
}

var reKeyed = regexp.MustCompile(`^(.*)_k(m?)(\d+)$`)

func bindName(sym string) string {
	// gv_b0 -> b0 ; gv_b0_k3 -> b0@3 ; gv_b0_km5 -> b0@-5
	if m := reKeyed.FindStringSubmatch(sym); m != nil {
		k := m[3]
		if m[2] == "m" {
			k = "-" + k
		}
		return m[1] + "@" + k
	}
	return sym
}

// FillSpec decodes the model of o into spec (bindings, availability, operator tables).
func FillSpec(spec *ReplaySpec, model map[string]string, valueTerms []string) {
	spec.Vars, spec.Avail, spec.Vars2, spec.Avail2, spec.Ops = map[string]RBind{}, map[string]bool{}, map[string]RBind{}, map[string]bool{}, map[string][]ROp{}
	get := func(t string) (string, bool) { v, ok := model[t]; return v, ok }
	for _, t := range valueTerms {
		v, ok := get(t)
		if !ok {
			continue
		}
		switch {
		case strings.HasPrefix(t, "gv_"):
			n := bindName(t[3:])
			b := spec.Vars[n]
			b.V, _ = decodeVal(v)
			spec.Vars[n] = b
		case strings.HasPrefix(t, "ge_"):
			n := bindName(t[3:])
			b := spec.Vars[n]
			b.E = decodeErr(v)
			spec.Vars[n] = b
		case strings.HasPrefix(t, "gw_"):
			n := bindName(t[3:])
			b := spec.Vars2[n]
			b.V, _ = decodeVal(v)
			spec.Vars2[n] = b
		case strings.HasPrefix(t, "gwe_"):
			n := bindName(t[4:])
			b := spec.Vars2[n]
			b.E = decodeErr(v)
			spec.Vars2[n] = b
		case strings.HasPrefix(t, "av_"):
			spec.Avail[bindName(t[3:])] = v == "true"
		case strings.HasPrefix(t, "aw_"):
			spec.Avail2[bindName(t[3:])] = v == "true"
		}
	}
	// a variable whose value the query does not constrain gets an in-domain default
	fillDefault := func(m map[string]RBind) {
		for n, b := range m {
			if b.E == "" && b.V.K == "" {
				name := n
				if i := strings.Index(n, "@"); i >= 0 {
					name = n[:i]
				}
				if Alpha.IsBoolVar(name) {
					b.V = RVal{K: "bool", B: true}
				} else {
					b.V = RVal{K: "int", I: 1}
				}
				m[n] = b
			}
		}
	}
	fillDefault(spec.Vars)
	fillDefault(spec.Vars2)
	// custom operator applications: terms "(cv_<op>_<n> args...)" or "cv_<op>_0"
	for _, t := range valueTerms {
		var head string
		var args []*core.Sexp
		if strings.HasPrefix(t, "(cv_") {
			sx, _, err := core.ParseSexp(t)
			if err != nil || sx == nil || sx.IsAtom() {
				continue
			}
			head = sx.List[0].Atom
			args = sx.List[1:]
		} else if strings.HasPrefix(t, "cv_") {
			head = t
		} else {
			continue
		}
		rest := head[3:]
		i := strings.LastIndex(rest, "_")
		if i < 0 {
			continue
		}
		op := rest[:i]
		ent := ROp{}
		okAll := true
		for _, a := range args {
			av, ok := get(a.String())
			if !ok {
				okAll = false
				break
			}
			rv, ok := decodeVal(av)
			if !ok {
				okAll = false
				break
			}
			ent.Args = append(ent.Args, rv)
		}
		if !okAll {
			continue
		}
		if v, ok := get(t); ok {
			ent.V, _ = decodeVal(v)
		}
		et := "(ce_" + t[4:]
		if !strings.HasPrefix(t, "(") {
			et = "ce_" + t[3:]
		}
		if v, ok := get(et); ok {
			ent.E = decodeErr(v)
		}
		if ent.E == "" && ent.V.K == "" { // value not constrained by the query: in-domain default
			if op == Alpha.CustomBool {
				ent.V = RVal{K: "bool", B: false}
			} else {
				ent.V = RVal{K: "int", I: 0}
			}
		}
		dup := false
		for _, x := range spec.Ops[op] {
			if fmt.Sprint(x.Args) == fmt.Sprint(ent.Args) {
				dup = true
			}
		}
		if !dup {
			spec.Ops[op] = append(spec.Ops[op], ent)
		}
	}
}

// Witness renders the one-line description of a decoded counterexample.
func (s *ReplaySpec) Witness() string {
	var parts []string
	var names []string
	for n := range s.Vars {
		names = append(names, n)
	}
	sort.Strings(names)
	for _, n := range names {
		a := ""
		if av, ok := s.Avail[n]; ok && !av {
			a = " (unavailable)"
		}
		parts = append(parts, fmt.Sprintf("%s=%s%s", n, s.Vars[n], a))
	}
	names = nil
	for n := range s.Vars2 {
		names = append(names, n)
	}
	sort.Strings(names)
	for _, n := range names {
		parts = append(parts, fmt.Sprintf("%s'=%s", n, s.Vars2[n]))
	}
	var ops []string
	for n := range s.Ops {
		ops = append(ops, n)
	}
	sort.Strings(ops)
	for _, n := range ops {
		for _, e := range s.Ops[n] {
			var as []string
			for _, a := range e.Args {
				as = append(as, a.String())
			}
			r := e.V.String()
			if e.E != "" {
				r = "error#" + e.E
			}
			parts = append(parts, fmt.Sprintf("%s(%s)=%s", n, strings.Join(as, ","), r))
		}
	}
	m := ""
	if s.Method != "" {
		m = " " + s.Method
	}
	return fmt.Sprintf("src=%s cfg=%s rel=%s%s binding: %s", escSrc(s.Src), ConfigName(s.Mask, s.Ev, s.Costs), s.Rel, m, strings.Join(parts, " "))
}

// ---------------------------------------------------------------- running the harness

var replaySeq int64

// runReplays executes the specs in one `go test` and returns the verdicts by id.
func runReplays(env *core.Env, dir string, specs []*ReplaySpec) (map[int]*ReplayOut, string, string, error) {
	if err := os.MkdirAll(dir, 0o755); err != nil {
		return nil, "", "", err
	}
	n := atomic.AddInt64(&replaySeq, 1)
	in := filepath.Join(dir, fmt.Sprintf("replay_in_%d.jsonl", n))
	out := filepath.Join(dir, fmt.Sprintf("replay_out_%d.jsonl", n))
	var buf bytes.Buffer
	for _, s := range specs {
		b, _ := json.Marshal(s)
		buf.Write(b)
		buf.WriteByte('\n')
	}
	if err := os.WriteFile(in, buf.Bytes(), 0o644); err != nil {
		return nil, "", "", err
	}
	// the generated test = the two harness templates, copied next to the inputs so that a stored replay is self-contained
	files := map[string]string{}
	for _, f := range []string{"driver_test.go.txt", "replay_test.go.txt"} {
		b, err := os.ReadFile(harnessFile(env, f))
		if err != nil {
			return nil, "", "", err
		}
		dst := filepath.Join(dir, f)
		if err := os.WriteFile(dst, b, 0o644); err != nil {
			return nil, "", "", err
		}
		files["zz_verif_"+strings.TrimSuffix(f, ".txt")] = dst
	}
	ov, err := writeOverlay(env, dir, files)
	if err != nil {
		return nil, "", "", err
	}
	args := []string{"test", "-tags", "verif", "-overlay", ov, "-vet=off", "-count=1", "-timeout", "60s", "-run", "TestVerifReplay", "."}
	cmd := exec.Command("go", args...)
	cmd.Dir = env.Repo
	cmd.Env = goEnv("VERIF_REPLAY_IN="+in, "VERIF_REPLAY_OUT="+out)
	cmdline := fmt.Sprintf("cd %s && VERIF_REPLAY_IN=%s VERIF_REPLAY_OUT=%s GOFLAGS=-mod=mod go %s", env.Repo, in, out, strings.Join(args, " "))
	o, runErr := cmd.CombinedOutput()
	res := map[int]*ReplayOut{}
	if f, err := os.Open(out); err == nil {
		sc := bufio.NewScanner(f)
		sc.Buffer(make([]byte, 1<<20), 1<<26)
		for sc.Scan() {
			var r ReplayOut
			if json.Unmarshal(sc.Bytes(), &r) == nil {
				rr := r
				res[r.ID] = &rr
			}
		}
		f.Close()
	}
	if runErr != nil && len(res) == 0 {
		return res, cmdline, string(o), fmt.Errorf("replay run failed: %v", runErr)
	}
	return res, cmdline, string(o), nil
}

// escSrc keeps a source text on one line (witness lines, obligation names).
func escSrc(s string) string {
	if len(s) > 400 {
		s = s[:400] + "…"
	}
	return strings.NewReplacer("\n", "\\n", "\t", "\\t", "\r", "\\r").Replace(s)
}

func sanitizeName(s string) string {
	s = regexp.MustCompile(`[^A-Za-z0-9_.@=-]+`).ReplaceAllString(s, "_")
	if len(s) > 100 {
		s = s[:100]
	}
	return s
}

// specOf decodes the obligation's model into a replay spec.
func (cx *Checker) specOf(o *core.Obl) *ReplaySpec {
	var spec ReplaySpec
	if err := json.Unmarshal([]byte(o.ReplayData["spec"]), &spec); err != nil {
		return nil
	}
	if o.Query == "" {
		return &spec // concrete obligation: the spec already carries its input
	}
	vals := cx.values[o.Name]
	if vals == nil && o.ReplayData["values"] != "" {
		vals = strings.Split(o.ReplayData["values"], "\n")
	}
	FillSpec(&spec, o.Model, vals)
	return &spec
}

var concreteReplay = map[string]bool{"conform": true, "wf": true, "boundary-compile": true, "boundary-run": true, "compile-calls": true, "directive=options": true,
	"ev-dump": true, "redump-compiles": true, "redump-text": true}

// ReplayAll replays every refuted obligation that has a model, in batches.
func (cx *Checker) ReplayAll(obls []*core.Obl) {
	var specs []*ReplaySpec
	byID := map[int]*core.Obl{}
	for _, o := range obls {
		if o.Status != core.Refuted || o.ReplayKind != "bounded" || o.Replay != nil {
			continue
		}
		spec := cx.specOf(o)
		if spec == nil {
			continue
		}
		spec.ID = len(specs)
		if o.Query == "" {
			// concrete obligation (driver): the witness is the source itself; the replay re-runs the real code on it
			if !concreteReplay[spec.Rel] {
				continue
			}
		} else {
			o.Witness = spec.Witness()
		}
		b, _ := json.Marshal(spec)
		o.ReplayData["spec"] = string(b)
		o.ReplayData["values"] = strings.Join(cx.values[o.Name], "\n")
		specs = append(specs, spec)
		byID[spec.ID] = o
	}
	if len(specs) == 0 {
		return
	}
	// batches: experiments that are expected not to terminate go into small
	// batches of their own (each costs the harness a time-out); batches run in parallel
	var batches [][]*ReplaySpec
	var hangy, normal []*ReplaySpec
	for _, s := range specs {
		if strings.HasPrefix(s.Rel, "unwind") {
			if len(hangy) >= 30 {
				// non-termination is expensive to demonstrate: 30 inputs are replayed, the others keep their model
				byID[s.ID].Replay = &core.ReplayResult{Confirmed: false, Output: "not replayed: the replay budget for non-terminating inputs (30 per run) is used up; the decoded input is in the witness"}
				continue
			}
			hangy = append(hangy, s)
		} else {
			if len(normal) >= 900 {
				// a broken tree can refute tens of thousands of obligations: 900 are replayed, the others keep their model
				byID[s.ID].Replay = &core.ReplayResult{Confirmed: false, Output: "not replayed: the replay budget (900 inputs per run) is used up; the decoded input is in the witness"}
				continue
			}
			normal = append(normal, s)
		}
	}
	for lo := 0; lo < len(hangy); lo += 6 {
		batches = append(batches, hangy[lo:minInt(lo+6, len(hangy))])
	}
	for lo := 0; lo < len(normal); lo += 300 {
		batches = append(batches, normal[lo:minInt(lo+300, len(normal))])
	}
	var wg sync.WaitGroup
	sem := make(chan struct{}, 6)
	for bi, batch := range batches {
		wg.Add(1)
		sem <- struct{}{}
		go func(bi int, batch []*ReplaySpec) {
			defer wg.Done()
			defer func() { <-sem }()
			dir := filepath.Join(cx.env.Out, "replays", cx.prop, fmt.Sprintf("run%02d", bi))
			outs, cmdline, output, err := runReplays(cx.env, dir, batch)
			for _, s := range batch {
				o := byID[s.ID]
				r := outs[s.ID]
				if r == nil {
					msg := "replay produced no verdict"
					if err != nil {
						msg = err.Error()
					}
					o.Replay = &core.ReplayResult{Confirmed: false, Cmd: cmdline, Output: trunc(msg+"\n"+output, 800)}
					continue
				}
				o.Replay = &core.ReplayResult{Confirmed: r.Confirmed, Cmd: cmdline,
					Output:   fmt.Sprintf("real: %s | specification: %s | %s", trunc(r.Got, 2000), trunc(r.Want, 2000), r.Detail),
					TestFile: filepath.Join(dir, "replay_test.go.txt")}
				if r.Confirmed && o.Query != "" {
					o.Witness += fmt.Sprintf(" => real %s, specification %s", trunc(r.Got, 300), trunc(r.Want, 300))
				}
			}
		}(bi, batch)
	}
	wg.Wait()
}

func minInt(a, b int) int {
	if a < b {
		return a
	}
	return b
}

// Replay replays one obligation (used by govc when a stored obligation is re-run).
func Replay(env *core.Env, p *load.Program, prop string, o *core.Obl) {
	if o.Replay != nil || o.ReplayData == nil {
		return
	}
	var spec ReplaySpec
	if err := json.Unmarshal([]byte(o.ReplayData["spec"]), &spec); err != nil {
		return
	}
	if o.Model != nil && len(spec.Vars) == 0 && len(spec.Ops) == 0 && o.ReplayData["values"] != "" {
		FillSpec(&spec, o.Model, strings.Split(o.ReplayData["values"], "\n"))
	}
	if o.Witness == "" {
		o.Witness = spec.Witness()
	}
	dir := filepath.Join(env.Out, "replays", prop, "single_"+sanitizeName(o.Name))
	outs, cmdline, output, err := runReplays(env, dir, []*ReplaySpec{&spec})
	r := outs[spec.ID]
	if r == nil {
		msg := "replay produced no verdict"
		if err != nil {
			msg = err.Error()
		}
		o.Replay = &core.ReplayResult{Confirmed: false, Cmd: cmdline, Output: trunc(msg+"\n"+output, 1500)}
		return
	}
	o.Replay = &core.ReplayResult{Confirmed: r.Confirmed, Cmd: cmdline,
		Output:   fmt.Sprintf("real: %s | specification: %s | %s", r.Got, r.Want, r.Detail),
		TestFile: filepath.Join(dir, "replay_test.go.txt")}
}
