package vc

import (
	"fmt"
	"go/types"

	"golang.org/x/tools/go/ssa"
)

type mapIter struct {
	m       *Term
	mt      *types.Map
	en      string // (Array Int K): enumeration of the keys at creation
	pos     string // Skolem position function name
	n       string // number of keys
	dom0    string // key set at creation
	posBase string // base of the iterator position
	ordinal int
	str     *Term // range over a string: the string (mt is nil); the position is a byte offset
}

func (g *Gen) mapBases(st *state, mt *types.Map) (dom, val, card string, ks, vs string) {
	ks = g.leafSort(mt.Key())
	vs = g.U.sortOf(mt.Elem())
	key := "M_" + typeKey(mt)
	dom = g.base(st, key+".dom", "(Array "+ks+" Bool)", 1, false)
	card = g.base(st, key+".card", "Int", 1, false)
	if vs != "" && !isEmptyStruct(mt.Elem()) {
		val = g.base(st, key+".val", "(Array "+ks+" "+vs+")", 1, false)
	}
	return
}

func isEmptyStruct(t types.Type) bool {
	s, ok := t.Underlying().(*types.Struct)
	return ok && s.NumFields() == 0
}

func (fr *frame) makeMap(x *ssa.MakeMap, st *state) {
	g := fr.g
	mt := x.Type().Underlying().(*types.Map)
	a := g.allocAddr(st)
	dom, _, card, ks, _ := g.mapBases(st, mt)
	key := "M_" + typeKey(mt)
	nd := g.newVersion(st, key+".dom")
	g.assert("(= " + nd + " (store " + dom + " " + a + " ((as const (Array " + ks + " Bool)) false)))")
	nc := g.newVersion(st, key+".card")
	g.assert("(= " + nc + " (store " + card + " " + a + " 0))")
	fr.env[x] = &Term{S: a, T: x.Type()}
}

func (fr *frame) mapUpdate(x *ssa.MapUpdate, st *state) {
	g := fr.g
	m := fr.val(x.Map)
	k := fr.val(x.Key)
	v := fr.val(x.Value)
	mt := x.Map.Type().Underlying().(*types.Map)
	g.safety(fr, st, "nil-map-write", fr.srcAnchor(x.Pos(), isIndex, "map-update"), x.Pos(), "(not (= "+m.S+" 0))")
	dom, val, card, _, _ := g.mapBases(st, mt)
	key := "M_" + typeKey(mt)
	had := "(select (select " + dom + " " + m.S + ") " + k.S + ")"
	nd := g.newVersion(st, key+".dom")
	g.assert("(= " + nd + " (store " + dom + " " + m.S + " (store (select " + dom + " " + m.S + ") " + k.S + " true)))")
	nc := g.newVersion(st, key+".card")
	g.assert("(= " + nc + " (store " + card + " " + m.S + " (+ (select " + card + " " + m.S + ") (ite " + had + " 0 1))))")
	if val != "" {
		nv := g.newVersion(st, key+".val")
		g.assert("(= " + nv + " (store " + val + " " + m.S + " (store (select " + val + " " + m.S + ") " + k.S + " " + v.S + ")))")
	}
}

func (fr *frame) lookup(x *ssa.Lookup, st *state) {
	g := fr.g
	mt, ok := x.X.Type().Underlying().(*types.Map)
	if !ok {
		// string index
		v := fr.val(x.X)
		i := fr.val(x.Index)
		g.safety(fr, st, "index", fr.srcAnchor(x.Pos(), isIndex, "string-index"), x.Pos(), "(and (<= 0 "+i.S+") (< "+i.S+" (strlen "+v.S+")))")
		r := "(strat " + v.S + " " + i.S + ")"
		g.assert("(and (<= 0 " + r + ") (<= " + r + " 255))")
		fr.env[x] = &Term{S: r, T: x.Type()}
		return
	}
	m := fr.val(x.X)
	k := fr.val(x.Index)
	dom, val, _, _, _ := g.mapBases(st, mt)
	in := "(select (select " + dom + " " + m.S + ") " + k.S + ")"
	vt := mt.Elem()
	var vterm string
	if val != "" {
		vterm = "(ite " + in + " (select (select " + val + " " + m.S + ") " + k.S + ") " + g.zero(vt) + ")"
	} else {
		vterm = g.zero(vt)
	}
	// name it (passive form) and give it its type invariant
	n := g.fresh(fr.name(x), g.leafSort(vt))
	g.assert("(= " + n + " " + vterm + ")")
	g.assumeType(vt, n, st, false)
	if x.CommaOk {
		fr.env[x] = &Term{T: x.Type(), Tuple: []*Term{{S: n, T: vt}, {S: in, T: types.Typ[types.Bool]}}}
	} else {
		fr.env[x] = &Term{S: n, T: vt}
	}
}

func (fr *frame) rangeInstr(x *ssa.Range, st *state) {
	g := fr.g
	if bt, isStr := x.X.Type().Underlying().(*types.Basic); isStr && bt.Info()&types.IsString != 0 {
		// range over a string: the cursor is a byte offset that advances by the width (1..4) of the rune read
		g.nfresh++
		sord := 0
	countStr:
		for _, b := range fr.fn.Blocks {
			for _, ins := range b.Instrs {
				if r, ok := ins.(*ssa.Range); ok {
					sord++
					if r == x {
						break countStr
					}
				}
			}
		}
		it := &mapIter{str: fr.val(x.X), posBase: fmt.Sprintf("IT_%sstr_%d", fr.prefix, g.nfresh), ordinal: sord}
		g.base(st, it.posBase, "Int", 0, true)
		nv := g.newVersion(st, it.posBase)
		g.assert("(= " + nv + " 0)")
		fr.iterOf[x] = it
		fr.env[x] = &Term{S: "0", T: x.Type()}
		return
	}
	mt, ok := x.X.Type().Underlying().(*types.Map)
	if !ok {
		g.rejectf("range over %s", x.X.Type())
		fr.env[x] = &Term{S: "0", T: x.Type()}
		return
	}
	m := fr.val(x.X)
	dom, _, card, ks, _ := g.mapBases(st, mt)
	ord := 0
	for _, b := range fr.fn.Blocks {
		for _, ins := range b.Instrs {
			if r, ok := ins.(*ssa.Range); ok {
				ord++
				if r == x {
					goto found
				}
			}
		}
	}
found:
	g.nfresh++
	id := fmt.Sprintf("%sit%d_%d", fr.prefix, ord, g.nfresh)
	it := &mapIter{m: m, mt: mt, ordinal: ord}
	it.en = "en_" + id
	it.pos = "pos_" + id
	it.n = "n_" + id
	it.dom0 = "dom0_" + id
	it.posBase = "IT_" + id
	g.declare(it.en, "(Array Int "+ks+")")
	g.declareFun(it.pos, "("+ks+") Int")
	g.declare(it.n, "Int")
	g.declare(it.dom0, "(Array "+ks+" Bool)")
	g.assert("(= " + it.dom0 + " (select " + dom + " " + m.S + "))")
	g.assert("(= " + it.n + " (select " + card + " " + m.S + "))")
	g.assert("(>= " + it.n + " 0)")
	g.assert("(forall ((i Int)) (! (=> (and (<= 0 i) (< i " + it.n + ")) (and (select " + it.dom0 + " (select " + it.en + " i)) (= (" + it.pos + " (select " + it.en + " i)) i))) :pattern ((select " + it.en + " i))))")
	g.assert("(forall ((k " + ks + ")) (! (=> (select " + it.dom0 + " k) (and (<= 0 (" + it.pos + " k)) (< (" + it.pos + " k) " + it.n + ") (= (select " + it.en + " (" + it.pos + " k)) k))) :pattern ((select " + it.dom0 + " k)) :pattern ((" + it.pos + " k))))")
	// nil map: no keys
	g.assert("(=> (= " + m.S + " 0) (= " + it.n + " 0))")
	// position cell
	g.base(st, it.posBase, "Int", 0, true)
	nv := g.newVersion(st, it.posBase)
	g.assert("(= " + nv + " 0)")
	fr.iterOf[x] = it
	fr.env[x] = &Term{S: "0", T: x.Type()}
}

func (fr *frame) nextInstr(x *ssa.Next, st *state) {
	g := fr.g
	it := fr.iterOf[x.Iter]
	if it == nil {
		g.rejectf("next on unknown iterator")
		fr.env[x] = &Term{T: x.Type(), Tuple: []*Term{{S: "false", T: types.Typ[types.Bool]}, {S: "0"}, {S: "0"}}}
		return
	}
	if it.str != nil {
		pos := g.base(st, it.posBase, "Int", 0, true)
		n := "(strlen " + it.str.S + ")"
		g.assert("(=> " + st.cur + " (and (<= 0 " + pos + ") (<= " + pos + " " + n + ")))")
		ok := "(< " + pos + " " + n + ")"
		w := g.fresh(fr.name(x)+"_w", "Int")
		g.assert("(and (<= 1 " + w + ") (<= " + w + " 4) (=> " + ok + " (<= (+ " + pos + " " + w + ") " + n + ")))")
		r := g.fresh(fr.name(x)+"_rune", "Int")
		g.assert("(and (<= 0 " + r + ") (<= " + r + " 1114111))")
		k := g.fresh(fr.name(x)+"_k", "Int")
		g.assert("(= " + k + " " + pos + ")")
		nv := g.newVersion(st, it.posBase)
		g.assert("(= " + nv + " (ite " + ok + " (+ " + pos + " " + w + ") " + pos + "))")
		fr.env[x] = &Term{T: x.Type(), Tuple: []*Term{{S: ok, T: types.Typ[types.Bool]}, {S: k, T: types.Typ[types.Int]}, {S: r, T: types.Typ[types.Rune]}}}
		return
	}
	dom, val, _, _, _ := g.mapBases(st, it.mt)
	pos := g.base(st, it.posBase, "Int", 0, true)
	// the position is always within [0, n] (by construction of next)
	g.assert("(=> " + st.cur + " (and (<= 0 " + pos + ") (<= " + pos + " " + it.n + ")))")
	// the ranged map must not be structurally modified during the iteration
	g.addObl(fr, st, "safety", "range-stable:"+fr.srcAnchor(x.Iter.Pos(), nil, "range"), "the map is not structurally modified during its own range loop", x.Iter.Pos(),
		"(= (select "+dom+" "+it.m.S+") "+it.dom0+")")
	ok := "(< " + pos + " " + it.n + ")"
	k := "(select " + it.en + " " + pos + ")"
	kn := g.fresh(fr.name(x)+"_k", g.leafSort(it.mt.Key()))
	g.assert("(= " + kn + " " + k + ")")
	g.assumeType(it.mt.Key(), kn, st, false)
	var vn string
	if val != "" {
		vn = g.fresh(fr.name(x)+"_v", g.leafSort(it.mt.Elem()))
		g.assert("(= " + vn + " (select (select " + val + " " + it.m.S + ") " + kn + "))")
		g.assumeType(it.mt.Elem(), vn, st, false)
	} else {
		vn = g.zero(it.mt.Elem())
	}
	nv := g.newVersion(st, it.posBase)
	g.assert("(= " + nv + " (ite " + ok + " (+ " + pos + " 1) " + pos + "))")
	fr.env[x] = &Term{T: x.Type(), Tuple: []*Term{{S: ok, T: types.Typ[types.Bool]}, {S: kn, T: it.mt.Key()}, {S: vn, T: it.mt.Elem()}}}
}
