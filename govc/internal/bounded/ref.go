package bounded

// Reference semantics of expressions (DESIGN section 3), generated per concrete
// source tree as nested ite terms: LR (left-to-right short-circuit), U / AllOK
// (order independent), K (Kleene over {value, DNE}), NoFail.  Written from the
// property statements, independently of the engine; the same definitions exist
// a second time as executable Go in harness/replay_test.go.txt (replay oracle).

import (
	"fmt"
)

// RefEnv says which terms variables denote.
type RefEnv struct {
	Val   func(name string) *T // value bound to name
	Err   func(name string) *T // error of Get(name) (ENil when bound)
	Avail func(name string) *T
}

// Ref generates reference terms; sub-results are named in Defs.
type Ref struct {
	Env   *RefEnv
	Defs  *Defs
	memoU map[*Src][2]*T
}

func NewRef(env *RefEnv, defs *Defs) *Ref {
	if env == nil {
		env = DefaultRefEnv()
	}
	return &Ref{Env: env, Defs: defs}
}

func DefaultRefEnv() *RefEnv {
	return &RefEnv{
		Val:   func(n string) *T { return Sym("gv_"+n, SVal) },
		Err:   func(n string) *T { return Sym("ge_"+n, SErr) },
		Avail: func(n string) *T { return Sym("av_"+n, SBool) },
	}
}

func leafTerm(l LeafVal) *T {
	switch l.Kind {
	case LBool:
		return VBool(BoolT(l.B))
	case LInt:
		return VInt(Int(l.I))
	case LStr:
		return VStr(Int(StrID(l.S)))
	case LIntList:
		return VIntList(Int(IntListID(l.IL)))
	case LStrList:
		return VStrList(Int(StrListID(l.SL)))
	}
	panic("leafTerm of a variable")
}

// applyTerms: value and error term of one operator application (no trace).
func applyTerms(op string, args []*T) (*T, *T) {
	if Alpha.IsCustom(op) {
		return CustomTerms(op, args)
	}
	if !IsBuiltinTerm(op) {
		panic(fmt.Sprintf("bounded: operator %q is not in the alphabet", op))
	}
	return OpTerm(op, args)
}

func decides(op string, v *T) *T {
	if IsAndName(op) {
		return And(Is("VBool", v), Not(BVal(v)))
	}
	return And(Is("VBool", v), BVal(v))
}

// LR: (value, error) of the documented left-to-right short-circuit evaluation.
func (rf *Ref) LR(t *Src) (*T, *T) {
	env := rf.Env
	if t.IsLeaf() {
		l := DecodeLeaf(t.Leaf, Consts)
		if l.Kind == LVar {
			return env.Val(l.S), env.Err(l.S)
		}
		return leafTerm(l), ENil
	}
	if t.Op == "if" {
		cv, ce := rf.LR(t.Kids[0])
		av, ae := rf.LR(t.Kids[1])
		bv, be := rf.LR(t.Kids[2])
		cerr := IfCondErr(cv)
		v := Ite(BVal(cv), av, bv)
		e := Ite(IsENil(ce), Ite(IsENil(cerr), Ite(BVal(cv), ae, be), cerr), ce)
		return rf.Defs.Name("lrv", v), rf.Defs.Name("lre", e)
	}
	n := len(t.Kids)
	vs := make([]*T, n)
	es := make([]*T, n)
	for i, k := range t.Kids {
		vs[i], es[i] = rf.LR(k)
	}
	ov, oe := applyTerms(t.Op, vs)
	if IsAndName(t.Op) || IsOrName(t.Op) {
		// stop at the first deciding operand; later operands are never evaluated;
		// when no operand decides the operator is applied to all values
		v, e := ov, oe
		for i := n - 1; i >= 0; i-- {
			dec := decides(t.Op, vs[i])
			v = Ite(dec, vs[i], v)
			e = Ite(IsENil(es[i]), Ite(dec, ENil, e), es[i])
		}
		return rf.Defs.Name("lrv", v), rf.Defs.Name("lre", e)
	}
	e := oe
	for i := n - 1; i >= 0; i-- {
		e = Ite(IsENil(es[i]), e, es[i])
	}
	return rf.Defs.Name("lrv", ov), rf.Defs.Name("lre", e)
}

// U: order-independent value and its definedness.
func (rf *Ref) U(t *Src) (v, def *T) {
	if r, ok := rf.memoU[t]; ok {
		return r[0], r[1]
	}
	if rf.memoU == nil {
		rf.memoU = map[*Src][2]*T{}
	}
	v, def = rf.u(t)
	rf.memoU[t] = [2]*T{v, def}
	return v, def
}

func (rf *Ref) u(t *Src) (v, def *T) {
	env := rf.Env
	if t.IsLeaf() {
		l := DecodeLeaf(t.Leaf, Consts)
		if l.Kind == LVar {
			return env.Val(l.S), IsENil(env.Err(l.S))
		}
		return leafTerm(l), True
	}
	if t.Op == "if" {
		cv, cd := rf.U(t.Kids[0])
		av, ad := rf.U(t.Kids[1])
		bv, bd := rf.U(t.Kids[2])
		return rf.Defs.Name("uv", Ite(BVal(cv), av, bv)), rf.Defs.Name("ud", And(cd, Is("VBool", cv), Ite(BVal(cv), ad, bd)))
	}
	n := len(t.Kids)
	vs := make([]*T, n)
	ds := make([]*T, n)
	for i, k := range t.Kids {
		vs[i], ds[i] = rf.U(k)
	}
	if IsAndName(t.Op) || IsOrName(t.Op) {
		var some, all []*T
		for i := range vs {
			some = append(some, And(ds[i], decides(t.Op, vs[i])))
			all = append(all, And(ds[i], Is("VBool", vs[i])))
		}
		someDec := Or(some...)
		dec := BoolT(IsOrName(t.Op))
		return rf.Defs.Name("uv", VBool(Ite(someDec, dec, Not(dec)))), rf.Defs.Name("ud", Or(someDec, And(all...)))
	}
	ov, oe := applyTerms(t.Op, vs)
	return rf.Defs.Name("uv", ov), rf.Defs.Name("ud", And(And(ds...), IsENil(oe)))
}

// AllOK: every operand that any evaluation order can reach succeeds.
func (rf *Ref) AllOK(t *Src) *T {
	env := rf.Env
	if t.IsLeaf() {
		l := DecodeLeaf(t.Leaf, Consts)
		if l.Kind == LVar {
			return IsENil(env.Err(l.S))
		}
		return True
	}
	if t.Op == "if" {
		cv, cd := rf.U(t.Kids[0])
		return rf.Defs.Name("ok", And(rf.AllOK(t.Kids[0]), cd, Is("VBool", cv), Ite(BVal(cv), rf.AllOK(t.Kids[1]), rf.AllOK(t.Kids[2]))))
	}
	var cs []*T
	for _, k := range t.Kids {
		cs = append(cs, rf.AllOK(k))
	}
	_, d := rf.U(t)
	return rf.Defs.Name("ok", And(And(cs...), d))
}

// K: Kleene value over {value, DNE}; meaningful under NoFail.
func (rf *Ref) K(t *Src) *T {
	env := rf.Env
	if t.IsLeaf() {
		l := DecodeLeaf(t.Leaf, Consts)
		if l.Kind == LVar {
			return Ite(env.Avail(l.S), env.Val(l.S), VDNE)
		}
		return leafTerm(l)
	}
	if t.Op == "if" {
		c := rf.K(t.Kids[0])
		return rf.Defs.Name("k", Ite(Is("VDNE", c), VDNE, Ite(Eq(c, VBool(True)), rf.K(t.Kids[1]), rf.K(t.Kids[2]))))
	}
	var args, dne, dec []*T
	for _, k := range t.Kids {
		a := rf.K(k)
		args = append(args, a)
		dne = append(dne, Is("VDNE", a))
		if IsAndName(t.Op) {
			dec = append(dec, Eq(a, VBool(False)))
		} else if IsOrName(t.Op) {
			dec = append(dec, Eq(a, VBool(True)))
		}
	}
	ov, _ := applyTerms(t.Op, args)
	r := Ite(Or(dne...), VDNE, ov)
	if len(dec) > 0 {
		r = Ite(Or(dec...), VBool(BoolT(IsOrName(t.Op))), r)
	}
	return rf.Defs.Name("k", r)
}

// Eager: value of t when everything is evaluated (no short circuit), and the
// condition that every variable is bound and every application succeeds.
func (rf *Ref) Eager(t *Src) (v, nofail *T) {
	env := rf.Env
	if t.IsLeaf() {
		l := DecodeLeaf(t.Leaf, Consts)
		if l.Kind == LVar {
			return env.Val(l.S), IsENil(env.Err(l.S))
		}
		return leafTerm(l), True
	}
	var vs, nf []*T
	for _, k := range t.Kids {
		v, n := rf.Eager(k)
		vs = append(vs, v)
		nf = append(nf, n)
	}
	if t.Op == "if" {
		return rf.Defs.Name("ev", Ite(BVal(vs[0]), vs[1], vs[2])), rf.Defs.Name("nf", And(And(nf...), Is("VBool", vs[0])))
	}
	ov, oe := applyTerms(t.Op, vs)
	return rf.Defs.Name("ev", ov), rf.Defs.Name("nf", And(And(nf...), IsENil(oe)))
}

// NoFail(src, v): every operator application in the tree succeeds on v.
func (rf *Ref) NoFail(t *Src) *T {
	_, n := rf.Eager(t)
	return n
}

// Vars lists the variable names of a source in first-occurrence order.
func Vars(t *Src) []string {
	var out []string
	seen := map[string]bool{}
	t.Walk(func(s *Src) {
		if s.IsLeaf() {
			l := DecodeLeaf(s.Leaf, Consts)
			if l.Kind == LVar && !seen[l.S] {
				seen[l.S] = true
				out = append(out, l.S)
			}
		}
	})
	return out
}

// UsesUndef: does the source mention an undefined-mode variable?
func UsesUndef(t *Src) bool {
	for _, v := range Vars(t) {
		if Alpha.IsUndefVar(v) {
			return true
		}
	}
	return false
}
