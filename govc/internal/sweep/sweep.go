package sweep

import (
	"encoding/json"
	"fmt"
	"go/ast"
	"go/token"
	"go/types"
	"sort"

	"golang.org/x/tools/go/ssa"

	"govc/internal/core"
	"govc/internal/load"
)

type Analysis struct {
	Kind string `json:"kind"`
	Name string `json:"name"`
	// frame / reach based analyses
	Roots        []string `json:"roots"`
	WithOpTable  bool     `json:"with_operator_table"` // add every function stored in builtinOperators to the roots
	WithOptimMap bool     `json:"with_optimizer_map"`
	AllowSend    bool     `json:"allow_send"`
	// optable
	Aliases [][]string             `json:"aliases"`
	Modes   map[string]OpExpect    `json:"modes"`
	Extra   map[string]interface{} `json:"extra"`
	// reads
	Fields     []string `json:"fields"`      // e.g. "parser.source", "token.pos"
	AllowedIn  []string `json:"allowed_in"`  // function keys that may read them
	CallTypes  []string `json:"call_types"`  // for "dyncalls": named func types to inventory (e.g. "Operator")
	ExpectIn   []string `json:"expect_in"`   // function keys where such calls are expected
	ConfigType string   `json:"config_type"` // for "configwrites"
}

type OpExpect struct {
	Func   string                 `json:"func"`
	Fields map[string]interface{} `json:"fields"`
}

type Selection struct {
	Analyses []Analysis `json:"analyses"`
}

type sweeper struct {
	curRoots     []*ssa.Function
	pathVisiting map[ssa.Value]bool
	p            *load.Program
	iv           *InitVals
	obls         []*core.Obl
	seen         map[string]int
}

func Run(env *core.Env, p *load.Program, prop string, sel json.RawMessage) (*core.Result, error) {
	var s Selection
	if err := json.Unmarshal(sel, &s); err != nil {
		return nil, err
	}
	sw := &sweeper{p: p, iv: EvalInit(p.SSA), seen: map[string]int{}}
	res := &core.Result{Extra: map[string]interface{}{}}
	for _, a := range s.Analyses {
		switch a.Kind {
		case "optable":
			sw.optable(a)
		case "frame":
			sw.frame(a)
		case "globals":
			sw.globals(a)
		case "determinism":
			sw.determinism(a)
		case "dyncalls":
			sw.dyncalls(a)
		case "reads":
			sw.reads(a)
		case "configwrites":
			sw.configWrites(a)
		case "writeset":
			sw.writeset(a)
		case "guardedcall":
			sw.guardedcall(a)
		case "callorder":
			sw.callorder(a)
		default:
			return nil, fmt.Errorf("unknown sweep analysis %q", a.Kind)
		}
	}
	res.Obls = sw.obls
	res.Assumptions = append(res.Assumptions,
		"sweeps enumerate the go/ssa instructions of the current tree; calls through function values whose callee is not statically known (registered operators, options) are outside the enumerated set and assumed well-behaved",
		"no unsafe, cgo, reflection-based writes or assembly in the package (checked: the package imports none of them)")
	return res, nil
}

func (sw *sweeper) add(name, kind, detail string, ok bool, why string, pos token.Pos) {
	sw.seen[name]++
	if c := sw.seen[name]; c > 1 {
		name = fmt.Sprintf("%s#%d", name, c)
	}
	o := &core.Obl{Name: name, Kind: kind, Tier: core.Sweep, Detail: detail, Pos: sw.p.PosString(pos), Solver: "ssa-enumeration"}
	if ok {
		o.Status = core.Discharged
	} else {
		o.Status = core.Refuted
		o.Output = why
	}
	sw.obls = append(sw.obls, o)
}

func (sw *sweeper) key(fn *ssa.Function) string {
	if k, ok := sw.p.Keys[fn]; ok {
		return k
	}
	// bound-method wrappers etc.
	return fn.String()
}

// ---------------------------------------------------------------- reachability

func (sw *sweeper) reach(a Analysis) (map[*ssa.Function]bool, []string) {
	var missing []string
	set := map[*ssa.Function]bool{}
	var work []*ssa.Function
	push := func(f *ssa.Function) {
		if f == nil || set[f] {
			return
		}
		// only functions of this package (incl. synthetic wrappers of its methods)
		root := f
		for root.Parent() != nil {
			root = root.Parent()
		}
		if root.Pkg != sw.p.SSA && !(root.Pkg == nil && root.Synthetic != "" && len(root.Blocks) > 0) {
			return
		}
		set[f] = true
		work = append(work, f)
	}
	for _, r := range a.Roots {
		f := sw.p.Lookup(r)
		if f == nil {
			missing = append(missing, r)
			continue
		}
		push(f)
	}
	if a.WithOpTable {
		if tab, _, err := sw.iv.OperatorTable(sw.key); err == nil {
			for _, e := range tab {
				push(e.Fn)
			}
		} else {
			missing = append(missing, "builtinOperators: "+err.Error())
		}
	}
	if a.WithOptimMap {
		if m, ok := sw.iv.Globals["optimizerMap"].(*cmap); ok {
			for _, v := range m.entries {
				if c, ok := v.(*cclosure); ok {
					push(c.fn)
				}
			}
		} else {
			missing = append(missing, "optimizerMap")
		}
	}
	for len(work) > 0 {
		f := work[len(work)-1]
		work = work[:len(work)-1]
		for _, b := range f.Blocks {
			for _, ins := range b.Instrs {
				for _, op := range ins.Operands(nil) {
					if op == nil || *op == nil {
						continue
					}
					switch x := (*op).(type) {
					case *ssa.Function:
						if skip, _ := a.Extra["skip_operator_closures"].(bool); skip && x.Parent() != nil {
							if opT := sw.p.SSA.Type("Operator"); opT != nil && types.Identical(x.Signature, opT.Type().Underlying()) {
								continue
							}
						}
						push(x)
					case *ssa.MakeClosure:
						if skip, _ := a.Extra["skip_operator_closures"].(bool); skip {
							if opT := sw.p.SSA.Type("Operator"); opT != nil && types.Identical(x.Fn.(*ssa.Function).Signature, opT.Type().Underlying()) {
								continue
							}
						}
						push(x.Fn.(*ssa.Function))
					}
				}
				if mc, ok := ins.(*ssa.MakeClosure); ok {
					cf := mc.Fn.(*ssa.Function)
					if skip, _ := a.Extra["skip_operator_closures"].(bool); skip {
						// a closure of the Operator type that is merely created (stored into a node) does not run here;
						// it could only run through a call of an Operator value, which is what the analysis inventories
						if opT := sw.p.SSA.Type("Operator"); opT != nil && types.Identical(cf.Signature, opT.Type().Underlying()) {
							continue
						}
					}
					push(cf)
				}
			}
		}
	}
	return set, missing
}

func sortedFuncs(sw *sweeper, set map[*ssa.Function]bool) []*ssa.Function {
	var fs []*ssa.Function
	for f := range set {
		fs = append(fs, f)
	}
	sort.Slice(fs, func(i, j int) bool { return sw.key(fs[i]) < sw.key(fs[j]) })
	return fs
}

// ---------------------------------------------------------------- roots of an address / container

type root struct {
	kind string // fresh | param | freevar | global | load | call | unknown
	desc string
	fn   *ssa.Function
	idx  int
}

func (sw *sweeper) rootsOf(v ssa.Value, fn *ssa.Function, set map[*ssa.Function]bool, depth int, visiting map[ssa.Value]bool) []root {
	if v == nil {
		return nil
	}
	if visiting[v] {
		return nil
	}
	visiting[v] = true
	defer delete(visiting, v)
	if depth > 12 {
		return []root{{kind: "unknown", desc: "analysis depth exceeded"}}
	}
	rec := func(x ssa.Value) []root { return sw.rootsOf(x, fn, set, depth+1, visiting) }
	switch x := v.(type) {
	case *ssa.Alloc:
		return []root{{kind: "fresh", desc: "alloc " + x.Name()}}
	case *ssa.MakeSlice, *ssa.MakeMap, *ssa.MakeChan:
		return []root{{kind: "fresh", desc: "make"}}
	case *ssa.Const:
		return nil
	case *ssa.FieldAddr:
		return rec(x.X)
	case *ssa.IndexAddr:
		return rec(x.X)
	case *ssa.Slice:
		return rec(x.X)
	case *ssa.ChangeType:
		return rec(x.X)
	case *ssa.Convert:
		if _, isStr := x.X.Type().Underlying().(*types.Basic); isStr {
			return []root{{kind: "fresh", desc: "conversion from string allocates"}}
		}
		return rec(x.X)
	case *ssa.MakeInterface:
		return rec(x.X)
	case *ssa.Phi:
		var out []root
		for _, e := range x.Edges {
			out = append(out, rec(e)...)
		}
		return out
	case *ssa.Extract:
		return rec(x.Tuple)
	case *ssa.Global:
		return []root{{kind: "global", desc: "package variable " + x.Name()}}
	case *ssa.Parameter:
		for i, p := range fn.Params {
			if p == x {
				return sw.paramRoots(fn, i, set, depth, visiting)
			}
		}
		return []root{{kind: "param", desc: "parameter " + x.Name(), fn: fn}}
	case *ssa.FreeVar:
		// a captured variable: pointer to a cell of the enclosing activation
		return []root{{kind: "freevar", desc: "captured variable " + x.Name(), fn: fn}}
	case *ssa.UnOp:
		if x.Op != token.MUL {
			return []root{{kind: "unknown", desc: "unary " + x.Op.String()}}
		}
		// load: from a local cell -> whatever was stored there; otherwise a heap load
		switch a := x.X.(type) {
		case *ssa.Alloc:
			return sw.storedInto(a, fn, set, depth, visiting)
		case *ssa.FreeVar:
			return sw.freeVarContents(fn, a, set, depth, visiting)
		}
		return []root{{kind: "load", desc: "value loaded from memory (" + sw.srcOf(fn, x.Pos(), x.X.Name()) + ")"}}
	case *ssa.Call:
		com := x.Common()
		if bi, ok := com.Value.(*ssa.Builtin); ok && bi.Name() == "append" {
			out := rec(com.Args[0])
			out = append(out, root{kind: "fresh", desc: "append may reallocate"})
			return out
		}
		if sc := com.StaticCallee(); sc != nil {
			// result of a package function: roots of its returned values
			if set[sc] || sc.Pkg == sw.p.SSA {
				var out []root
				for _, b := range sc.Blocks {
					for _, ins := range b.Instrs {
						if r, ok := ins.(*ssa.Return); ok {
							for _, rv := range r.Results {
								out = append(out, sw.rootsOf(rv, sc, set, depth+1, visiting)...)
							}
						}
					}
				}
				return out
			}
			return []root{{kind: "call", desc: "result of " + sc.String()}}
		}
		return []root{{kind: "call", desc: "result of a dynamic call"}}
	}
	return []root{{kind: "unknown", desc: fmt.Sprintf("%T", v)}}
}

// storedInto: union of the roots of all values stored into a local cell (flow-insensitive).
func (sw *sweeper) storedInto(a *ssa.Alloc, fn *ssa.Function, set map[*ssa.Function]bool, depth int, visiting map[ssa.Value]bool) []root {
	var out []root
	found := false
	var walk func(addr ssa.Value, owner *ssa.Function)
	walk = func(addr ssa.Value, owner *ssa.Function) {
		if addr.Referrers() == nil {
			return
		}
		for _, r := range *addr.Referrers() {
			switch x := r.(type) {
			case *ssa.Store:
				if x.Addr == addr {
					found = true
					out = append(out, sw.rootsOf(x.Val, owner, set, depth+1, visiting)...)
				}
			case *ssa.MakeClosure:
				cf := x.Fn.(*ssa.Function)
				for i, b := range x.Bindings {
					if b == addr && i < len(cf.FreeVars) {
						walk(cf.FreeVars[i], cf)
					}
				}
			}
		}
	}
	walk(a, fn)
	if !found {
		return []root{{kind: "fresh", desc: "zero value"}}
	}
	return out
}

func (sw *sweeper) freeVarContents(fn *ssa.Function, fv *ssa.FreeVar, set map[*ssa.Function]bool, depth int, visiting map[ssa.Value]bool) []root {
	parent := fn.Parent()
	if parent == nil {
		return []root{{kind: "freevar", desc: "captured variable " + fv.Name()}}
	}
	idx := -1
	for i, f := range fn.FreeVars {
		if f == fv {
			idx = i
		}
	}
	var out []root
	for _, b := range parent.Blocks {
		for _, ins := range b.Instrs {
			if mc, ok := ins.(*ssa.MakeClosure); ok && mc.Fn == fn && idx >= 0 && idx < len(mc.Bindings) {
				switch bnd := mc.Bindings[idx].(type) {
				case *ssa.Alloc:
					out = append(out, sw.storedInto(bnd, parent, set, depth+1, visiting)...)
				case *ssa.FreeVar:
					out = append(out, sw.freeVarContents(parent, bnd, set, depth+1, visiting)...)
				default:
					out = append(out, root{kind: "unknown", desc: "captured " + fv.Name()})
				}
			}
		}
	}
	if len(out) == 0 {
		return []root{{kind: "freevar", desc: "captured variable " + fv.Name()}}
	}
	if !set[parent] {
		// the closure was created by a function that does not run inside the activations under analysis (e.g. at
		// compile time): what that function allocated is shared by every later call of the closure, it is not fresh
		for i := range out {
			if out[i].kind == "fresh" {
				out[i] = root{kind: "captured-alloc", desc: "memory allocated by " + sw.key(parent) + " when the closure was created (" + out[i].desc + "), shared by every call", fn: fn}
			}
		}
	}
	return out
}

// paramRoots resolves a parameter at every call site inside the reachable set.
func (sw *sweeper) paramRoots(fn *ssa.Function, idx int, set map[*ssa.Function]bool, depth int, visiting map[ssa.Value]bool) []root {
	var out []root
	sites := 0
	for g := range set {
		for _, b := range g.Blocks {
			for _, ins := range b.Instrs {
				call, ok := ins.(ssa.CallInstruction)
				if !ok {
					continue
				}
				com := call.Common()
				if com.IsInvoke() {
					continue
				}
				if com.StaticCallee() == fn {
					sites++
					if idx < len(com.Args) {
						out = append(out, sw.rootsOf(com.Args[idx], g, set, depth+1, visiting)...)
					}
				}
			}
		}
	}
	if sites == 0 || fn.Signature.Recv() != nil && false {
		return []root{{kind: "param", desc: "parameter " + fn.Params[idx].Name() + " of entry point " + sw.key(fn), fn: fn, idx: idx}}
	}
	// entry points are also callable from outside
	for _, r := range sw.curRoots {
		if r == fn {
			out = append(out, root{kind: "param", desc: "parameter " + fn.Params[idx].Name() + " of entry point " + sw.key(fn), fn: fn, idx: idx})
		}
	}
	return out
}

func (sw *sweeper) srcOf(fn *ssa.Function, pos token.Pos, fallback string) string {
	if s := sw.p.ExprAt(fn, pos, nil); s != "" {
		return s
	}
	return fallback
}

func (sw *sweeper) stmtOf(fn *ssa.Function, pos token.Pos, fallback string) string {
	s := sw.p.ExprAt(fn, pos, func(n ast.Node) bool {
		switch n.(type) {
		case *ast.AssignStmt, *ast.IncDecStmt, *ast.ExprStmt, *ast.SendStmt, *ast.CallExpr, *ast.CompositeLit, *ast.RangeStmt, *ast.ReturnStmt:
			return true
		}
		return false
	})
	if s == "" {
		return fallback
	}
	if len(s) > 70 {
		s = s[:70]
	}
	return s
}
