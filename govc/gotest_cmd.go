package main

import "govc/internal/gotest"

func init() { engines["gotest"] = gotest.Run }
