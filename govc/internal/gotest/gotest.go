// Package gotest runs in-package Go test drivers against the real code of /repo through
// `go test -overlay` (nothing is written into the repository) and turns their
// "VERIF-OBL <name> <ok|fail> <detail>" lines into bounded-tier obligations: run-time
// evaluation of a contract's precondition or postcondition on enumerated programs.
// Such obligations are labelled bounded and are never counted as proved.
package gotest

import (
	"bufio"
	"encoding/json"
	"fmt"
	"os"
	"os/exec"
	"path/filepath"
	"strings"
	"time"

	"govc/internal/core"
	"govc/internal/load"
)

type Selection struct {
	Files   []string          `json:"files"` // under /verif/harness
	Run     string            `json:"run"`
	Env     map[string]string `json:"env"`
	Timeout string            `json:"timeout"`
}

func Run(env *core.Env, p *load.Program, prop string, sel json.RawMessage) (*core.Result, error) {
	var sels []Selection
	if err := json.Unmarshal(sel, &sels); err != nil {
		var one Selection
		if err2 := json.Unmarshal(sel, &one); err2 != nil {
			return nil, err
		}
		sels = []Selection{one}
	}
	res := &core.Result{Extra: map[string]interface{}{}}
	for _, s := range sels {
		if err := runOne(env, prop, s, res); err != nil {
			return nil, err
		}
	}
	res.Assumptions = append(res.Assumptions, "gotest obligations evaluate a predicate on concretely enumerated programs (bounded; the enumeration and its size are reported in the evidence)")
	return res, nil
}

func runOne(env *core.Env, prop string, s Selection, res *core.Result) error {
	os.MkdirAll(env.Work, 0o755)
	repl := map[string]string{}
	for i, f := range s.Files {
		repl[filepath.Join(env.Repo, fmt.Sprintf("zz_verif_%s_%d_test.go", strings.ToLower(prop), i))] = filepath.Join(env.Verif, "harness", f)
	}
	ov := filepath.Join(env.Work, fmt.Sprintf("ov_gotest_%d.json", time.Now().UnixNano()))
	b, _ := json.Marshal(map[string]interface{}{"Replace": repl})
	os.WriteFile(ov, b, 0o644)
	defer os.Remove(ov)
	to := s.Timeout
	if to == "" {
		to = "300s"
	}
	args := []string{"test", "-tags", "verif", "-overlay", ov, "-vet=off", "-timeout", to, "-count=1", "-v", "-run", "^" + s.Run + "$", "."}
	cmd := exec.Command("go", args...)
	cmd.Dir = env.Repo
	cmd.Env = append(os.Environ(), "GOFLAGS=-mod=mod", "GOPROXY=off", "GOSUMDB=off", "GOTOOLCHAIN=local",
		"VERIF_TIER="+env.Tier, fmt.Sprintf("VERIF_SEED=%d", env.Seed))
	for k, v := range s.Env {
		cmd.Env = append(cmd.Env, k+"="+v)
	}
	t0 := time.Now()
	out, _ := cmd.CombinedOutput()
	n := 0
	sc := bufio.NewScanner(strings.NewReader(string(out)))
	sc.Buffer(make([]byte, 1<<20), 1<<26)
	for sc.Scan() {
		line := sc.Text()
		switch {
		case strings.HasPrefix(line, "VERIF-OBL "):
			f := strings.SplitN(strings.TrimPrefix(line, "VERIF-OBL "), " ", 3)
			if len(f) < 2 {
				continue
			}
			o := &core.Obl{Name: f[0], Kind: "bounded:eval", Tier: core.Bounded, Solver: "go-test", TimeS: time.Since(t0).Seconds()}
			if len(f) == 3 {
				o.Detail = f[2]
			}
			if f[1] == "ok" {
				o.Status = core.Discharged
			} else {
				o.Status = core.Refuted
				o.Output = o.Detail
				o.Witness = o.Detail
				o.Replay = &core.ReplayResult{Confirmed: true, Cmd: "cd " + env.Repo + " && go " + strings.Join(args, " "), Output: o.Detail}
			}
			res.Obls = append(res.Obls, o)
			n++
		case strings.HasPrefix(line, "VERIF-EXTRA "):
			kv := strings.SplitN(strings.TrimPrefix(line, "VERIF-EXTRA "), "=", 2)
			if len(kv) == 2 {
				res.Extra[kv[0]] = kv[1]
			}
		case strings.HasPrefix(line, "VERIF-SAMPLE "):
			res.Samples = append(res.Samples, strings.TrimPrefix(line, "VERIF-SAMPLE "))
		}
	}
	if n == 0 {
		tail := string(out)
		if len(tail) > 1500 {
			tail = tail[len(tail)-1500:]
		}
		res.Obls = append(res.Obls, &core.Obl{Name: "gotest/" + s.Run + "/driver-ran", Kind: "bounded:eval", Tier: core.Bounded, Status: core.Unknown,
			Detail: "the in-package driver produced no obligations (build failure of the tree or of the driver?)", Output: tail})
	}
	return nil
}
