#!/usr/bin/env python3
# Source of truth of the must-fail corpus: (name, properties, expected obligation substring, [(file, old, new)...]).
# Running this script regenerates selftest/mutants/<name>.patch and .json from /repo's current sources.
import os, subprocess, json, tempfile, shutil, sys
M = []
def mut(name, props, expect, edits, note=""):
    M.append((name, props, expect, edits, note))
R = []
def revert(name, props, expect, commit, note=""):
    # canary: the reverse of a fix commit of /repo (the defect it repaired must be reported again)
    R.append((name, props, expect, commit, note))

# ---- C18
mut("arith_mod_zero_late", ["C18"], "arithmetic.execute/safety/div-by-zero",
    [("operator.go", "\t\t\tcase mod:\n\t\t\t\tif v == 0 {", "\t\t\tcase mod:\n\t\t\t\tif v == 0 && i < 2 {")], "zero divisor check of % only for the second operand")
mut("arith_sub_drift", ["C18"], "arithmetic.execute/inv/loop1[fold-prefix]",
    [("operator.go", "\t\t\tcase sub:\n\t\t\t\tres -= v\n", "\t\t\tcase sub:\n\t\t\t\tres -= v\n\t\t\t\tif i == 3 {\n\t\t\t\t\tres++\n\t\t\t\t}\n")], "fourth operand of - off by one")
mut("alias_andand_is_or", ["C18"], "sweep/optable/alias:and=&&",
    [("operator.go", '\t\t"&&": logic{mode: and}.execute,', '\t\t"&&": logic{mode: or}.execute,')])
mut("le_is_lt", ["C18"], "comparison.execute/post/value",
    [("operator.go", "\tcase lessEquals:\n\t\treturn i <= j, nil", "\tcase lessEquals:\n\t\treturn i < j, nil")])
mut("between_exclusive_upper", ["C18"], "comparisonBetween/post/value",
    [("operator.go", "\treturn a <= v && v <= b, nil", "\treturn a <= v && v < b, nil")])
mut("eq_nary_skips_last", ["C18"], "comparisonEquals/post/all-equal",
    [("operator.go", "\tfor _, p := range params {\n\t\tif v != p {", "\tfor _, p := range params[:len(params)-1] {\n\t\tif v != p {")])
mut("xor_is_or_for_third", ["C18"], "logic.execute/inv/loop1[fold-prefix]",
    [("operator.go", "\t\t\tcase xor:\n\t\t\t\tres = res != v", "\t\t\tcase xor:\n\t\t\t\tres = res != v || (i > 1 && res && v)")])
# ---- C17
mut("overlap_hash_probes_same_list", ["C17"], "listOverlap/",
    [("operator.go", "\t\t\tfor _, i := range B {\n\t\t\t\tif _, exist := set[i]; exist {\n\t\t\t\t\treturn true, nil\n\t\t\t\t}\n\t\t\t}\n\t\t\treturn false, nil\n\t\tcase []string:",
      "\t\t\tfor _, i := range A {\n\t\t\t\tif _, exist := set[i]; exist {\n\t\t\t\t\treturn true, nil\n\t\t\t\t}\n\t\t\t}\n\t\t\treturn false, nil\n\t\tcase []string:")], "int hashing path probes the hashed list itself")
mut("overlap_scan_returns_on_first_mismatch", ["C17"], "listOverlap/",
    [("operator.go", "\t\t\tfor _, i := range A {\n\t\t\t\tfor _, j := range B {\n\t\t\t\t\tif i == j {\n\t\t\t\t\t\treturn true, nil\n\t\t\t\t\t}\n\t\t\t\t}\n\t\t\t}\n\t\t\treturn false, nil\n\t\t}\n\t\tif len(A) > len(B) {\n\t\t\tA, B = B, A\n\t\t}\n\t\tset := make(map[string]struct{}, len(A))",
      "\t\t\tfor _, i := range A {\n\t\t\t\tfor _, j := range B[:len(B)/2+1] {\n\t\t\t\t\tif i == j {\n\t\t\t\t\t\treturn true, nil\n\t\t\t\t\t}\n\t\t\t\t}\n\t\t\t}\n\t\t\treturn false, nil\n\t\t}\n\t\tif len(A) > len(B) {\n\t\t\tA, B = B, A\n\t\t}\n\t\tset := make(map[string]struct{}, len(A))")], "string scan path only looks at the first half of B")
mut("in_mismatch_is_false", ["C17"], "listIn/post/int-emptylist",
    [("operator.go", "\t\tcase []string: // the empty list is parsed to a string list\n\t\t\tif len(coll) == 0 {\n\t\t\t\treturn false, nil\n\t\t\t}", "\t\tcase []string: // the empty list is parsed to a string list\n\t\t\treturn false, nil")], "int probe in a non-empty string list reported as false instead of an error")
mut("overlap_threshold_swap_missing", ["C17"], "listOverlap/",
    [("operator.go", "\t\t\tset := make(map[int64]struct{}, len(A))\n\t\t\tfor _, i := range A {\n\t\t\t\tset[i] = empty\n\t\t\t}", "\t\t\tset := make(map[int64]struct{}, len(A))\n\t\t\tfor _, i := range A[1:] {\n\t\t\t\tset[i] = empty\n\t\t\t}")], "hash set misses the first element (and panics on an empty list)")
# ---- C19
mut("version_base_1000", ["C19"], "versionConvert.execute/",
    [("operator.go", "\t\t\tres = res*10000 + v\n", "\t\t\tres = res*1000 + v\n")])
mut("version_accepts_10000", ["C19"], "versionConvert.execute/",
    [("operator.go", "\t\t\tif v >= 10000 {", "\t\t\tif v > 10000 {")])
mut("version_validlen_5", ["C19"], "versionConvert.execute/",
    [("operator.go", "\t\tif temp > 4 || temp < 1 {", "\t\tif temp > 5 || temp < 1 {")])
mut("date_ignores_custom_layout", ["C19"], "timeConvert.execute/post/ok-iff",
    [("operator.go", "\t\t\ttemp, ok := params[1].(string)\n\t\t\tif !ok {\n\t\t\t\treturn nil, errTypeStr(c.mode, params[1])\n\t\t\t}\n\t\t\tlayout = temp\n\t\tdefault:",
      "\t\t\ttemp, ok := params[1].(string)\n\t\t\tif !ok {\n\t\t\t\treturn nil, errTypeStr(c.mode, params[1])\n\t\t\t}\n\t\t\tlayout = temp\n\t\t\tif c.mode == date {\n\t\t\t\tlayout = c.layout\n\t\t\t}\n\t\tdefault:")])
mut("to_version_validlen_4", ["C19"], "sweep/optable/",
    [("operator.go", '\t\t"to_version": versionConvert{mode: version, validLen: 3}.execute,', '\t\t"to_version": versionConvert{mode: version, validLen: 4}.execute,')])
# ---- C07
mut("eval_caches_in_node", ["C07"], "sweep/frame:eval/Expr.Eval/store",
    [("engine.go", "\t\t\t\tparam2[0], param2[1] = os[osTop+1], os[osTop+2]\n\t\t\t\tparams = param2[:]\n\t\t\t} else {\n\t\t\t\tparams = make([]Value, cCnt)\n\t\t\t\tcopy(params, os[osTop+1:])\n\t\t\t}\n\n\t\t\tres, err = curt.operator(ctx, params)",
      "\t\t\t\tparam2[0], param2[1] = os[osTop+1], os[osTop+2]\n\t\t\t\tparams = param2[:]\n\t\t\t\tcurt.varKey = VariableKey(osTop)\n\t\t\t} else {\n\t\t\t\tparams = make([]Value, cCnt)\n\t\t\t\tcopy(params, os[osTop+1:])\n\t\t\t}\n\n\t\t\tres, err = curt.operator(ctx, params)")], "Eval writes into the shared program")
mut("global_operand_stack", ["C07"], "sweep/frame:eval/Expr.Eval/store",
    [("engine.go", "func (e *Expr) Eval(ctx *Ctx) (res Value, err error) {", "var sharedStack [8]Value\n\nfunc (e *Expr) Eval(ctx *Ctx) (res Value, err error) {"),
     ("engine.go", "\tswitch {\n\tcase m <= 8:\n\t\tos = make([]Value, 8)\n\tcase m <= 16:\n\t\tos = make([]Value, 16)\n\tdefault:\n\t\tos = make([]Value, size)\n\t}\n\n\tvar (\n\t\tparams []Value",
      "\tswitch {\n\tcase m <= 8:\n\t\tos = sharedStack[:]\n\tcase m <= 16:\n\t\tos = make([]Value, 16)\n\tdefault:\n\t\tos = make([]Value, size)\n\t}\n\n\tvar (\n\t\tparams []Value")], "small programs share one package-level operand stack")
mut("dump_sorts_parent_table", ["C07"], "sweep/frame:eval/Dump",
    [("util.go", "\tvar rootIdx int16\n\tfor idx, pIdx := range e.parentIdx {", "\tif len(e.parentIdx) > 1 && e.parentIdx[0] == -1 {\n\t\te.parentIdx[0] = -1\n\t}\n\tvar rootIdx int16\n\tfor idx, pIdx := range e.parentIdx {")], "Dump writes into the program")
# ---- C08
mut("parser_uses_callers_config", ["C08"], "sweep/configwrites:compile/parser.conf-assigned-from-CopyConfig",
    [("parser.go", "\t\tconf:   CopyConfig(cc),", "\t\tconf:   cc,")])
mut("copyconfig_shares_costsmap", ["C08"], "sweep/configwrites:compile/CopyConfig/config-field-value",
    [("compiler.go", "\tcopyConfig(conf, origin)\n\treturn conf", "\tcopyConfig(conf, origin)\n\tconf.CostsMap = origin.CostsMap\n\treturn conf")])
mut("compile_cache", ["C08"], "sweep/globals/written-outside-init",
    [("compiler.go", "func Compile(originConf *Config, exprStr string) (*Expr, error) {", "var compileCache = map[string]*Expr{}\n\nfunc Compile(originConf *Config, exprStr string) (*Expr, error) {\n\tif e, ok := compileCache[exprStr]; ok && originConf == nil {\n\t\treturn e, nil\n\t}"),
     ("compiler.go", "\texpr := buildExpr(conf, ast, res.size)\n", "\texpr := buildExpr(conf, ast, res.size)\n\tcompileCache[exprStr] = expr\n")])
mut("unknown_variable_registers_key", ["C08"], "sweep/configwrites:compile/",
    [("parser.go", "\tp.walk()\n\treturn &astNode{\n\t\tnode: &node{\n\t\t\tflag:   variable,\n\t\t\tvalue:  t.val,\n\t\t\tvarKey: UndefinedVarKey,", "\tp.walk()\n\tp.conf.VariableKeyMap[t.val] = UndefinedVarKey\n\treturn &astNode{\n\t\tnode: &node{\n\t\t\tflag:   variable,\n\t\t\tvalue:  t.val,\n\t\t\tvarKey: UndefinedVarKey,")], "bookkeeping write through p.conf outside parseConfig (harmless only because conf is a copy; flagged as an unexpected write path)")

# ---- C06 (evaluator under WF, parser safety); the repaired defects double as canaries
mut("eval_stack_class_16_gets_8", ["C06"], "Expr.Eval/inv/loop1[stack",
    [("engine.go", "func (e *Expr) Eval(ctx *Ctx) (res Value, err error) {\n\tvar (\n\t\tnodes = e.nodes\n\t\tsize  = int16(len(nodes))\n\t\tm     = e.maxStackSize\n\n\t\tos    []Value\n\t\tosTop = int16(-1)\n\t)\n\n\tswitch {\n\tcase m <= 8:\n\t\tos = make([]Value, 8)\n\tcase m <= 16:\n\t\tos = make([]Value, 16)",
      "func (e *Expr) Eval(ctx *Ctx) (res Value, err error) {\n\tvar (\n\t\tnodes = e.nodes\n\t\tsize  = int16(len(nodes))\n\t\tm     = e.maxStackSize\n\n\t\tos    []Value\n\t\tosTop = int16(-1)\n\t)\n\n\tswitch {\n\tcase m <= 8:\n\t\tos = make([]Value, 8)\n\tcase m <= 16:\n\t\tos = make([]Value, 8)")], "operand stack class 9..16 allocates 8 slots")
mut("eval_jump_keeps_slot", ["C06"], "Expr.Eval/",
    [("engine.go", "\t\t\t\tcurt = nodes[i]\n\t\t\t\tosTop = curt.osTop - 1\n\t\t\t}\n\t\t}\n\n\t\tos[osTop+1], osTop = res, osTop+1\n\t}\n\treturn os[0], nil\n}\n\nfunc (e *Expr) TryEval",
      "\t\t\t\tcurt = nodes[i]\n\t\t\t\tosTop = curt.osTop\n\t\t\t}\n\t\t}\n\n\t\tos[osTop+1], osTop = res, osTop+1\n\t}\n\treturn os[0], nil\n}\n\nfunc (e *Expr) TryEval")], "short-circuit jump leaves the stack pointer one too high")
mut("eval_swallows_operator_error", ["C06"], "Expr.Eval/post/error-identity",
    [("engine.go", "\t\t\tres, err = curt.operator(ctx, params)\n\t\t\tif err != nil {\n\t\t\t\treturn\n\t\t\t}\n\t\tcase cond:\n\t\t\tres, osTop = os[osTop], osTop-1\n\t\t\tres, err = curt.operator(ctx, []Value{res})\n\t\t\tif err != nil {\n\t\t\t\treturn\n\t\t\t}\n\t\t\tif res == true {\n\t\t\t\tosTop = curt.osTop\n\t\t\t\ti = curt.scIdx\n\t\t\t}\n\t\t\tcontinue\n\t\tdefault:\n\t\t\treportEvent(e, os, osTop, curt.value)\n\t\t\tcontinue\n\t\t}\n\t\tif b, ok",
      "\t\t\tres, err = curt.operator(ctx, params)\n\t\t\tif err != nil {\n\t\t\t\terr = errors.New(\"operator failed\")\n\t\t\t\treturn\n\t\t\t}\n\t\tcase cond:\n\t\t\tres, osTop = os[osTop], osTop-1\n\t\t\tres, err = curt.operator(ctx, []Value{res})\n\t\t\tif err != nil {\n\t\t\t\treturn\n\t\t\t}\n\t\t\tif res == true {\n\t\t\t\tosTop = curt.osTop\n\t\t\t\ti = curt.scIdx\n\t\t\t}\n\t\t\tcontinue\n\t\tdefault:\n\t\t\treportEvent(e, os, osTop, curt.value)\n\t\t\tcontinue\n\t\t}\n\t\tif b, ok")], "Eval replaces the operator's error by its own")
mut("tryeval_climb_skips_stack_reset", ["C06"], "Expr.TryEval/",
    [("engine.go", "\t\t\t} else {\n\t\t\t\tosTop = curt.osTop - 1\n\t\t\t}", "\t\t\t} else if curt.childCnt != 3 {\n\t\t\t\tosTop = curt.osTop - 1\n\t\t\t}")], "TryEval forgets the stack reset when climbing past a three-operand parent")
mut("tryeval_break_target_off", ["C06"], "Expr.TryEval/",
    [("engine.go", "\t\t\t\ti = nodes[curt.scIdx].scIdx\n\t\t\t\tosTop = nodes[i].osTop - 1", "\t\t\t\ti = curt.scIdx\n\t\t\t\tosTop = nodes[i].osTop - 1")], "DNE through an if continues at the fi marker instead of behind the false branch")
mut("canary_F1_empty_source", ["C06"], "parser.check/safety/index:p.tokens[0]",
    [("parser.go", "\t\t(last < 0 || p.tokens[0].typ != lParen || p.tokens[last].typ != rParen) {", "\t\t(p.tokens[0].typ != lParen || p.tokens[last].typ != rParen) {")], "reverts the F1 repair")
mut("canary_F2_list_end", ["C06"], "parser.parseList.$1/safety/index:T[i+1]",
    [("parser.go", "\t\tif T[i].typ != leftType || i+1 >= len(T) {", "\t\tif T[i].typ != leftType {")], "reverts the F2 repair")
mut("canary_F3_pop_guard", ["C06"], "parser.parseInfixExpression/",
    [("parser.go", "\t\t\t\tif cnt < 0 || cnt > len(outputStack) {", "\t\t\t\tif cnt > len(outputStack)+1 {")], "weakens the F3 repair")
mut("canary_F4_eq_lists", ["C06", "C18"], "comparisonEquals/safety/comparable",
    [("operator.go", "\t\tif isUncomparable(params[0]) && isUncomparable(params[1]) {\n\t\t\treturn nil, ParamTypeError(modeNames[equals], typeInt, params[1])\n\t\t}\n\t\treturn params[0] == params[1], nil", "\t\treturn params[0] == params[1], nil")], "reverts the F4 repair for two-operand eq")
mut("lexer_string_cursor", ["C06"], "parser.lex/",
    [("parser.go", "\t\t\t\tif A[i] == '\"' {\n\t\t\t\t\ti++\n\t\t\t\t\treturn string(A[start:i]), nil", "\t\t\t\tif A[i] == '\"' {\n\t\t\t\t\ti += 2\n\t\t\t\t\treturn string(A[start:i]), nil")], "string token swallows the rune after the closing quote (runs past the end of the source)")
mut("check_inbracket_index", ["C06"], "parser.check/",
    [("parser.go", "\t\tif prefixNotation && parenCnt == 0 && i != last {", "\t\tif prefixNotation && parenCnt == 0 && p.tokens[i+1].typ != comment {")], "structural pre-check peeks one token ahead without a bound")

# ---- C11
mut("key_allocation_starts_at_zero", ["C11"], "GetOrRegisterKey/",
    [("variable.go", "\tfor i := 1; i <= size; i++ {", "\tfor i := 0; i <= size; i++ {")])
mut("key_fallthrough_reuses_size", ["C11"], "GetOrRegisterKey/post/",
    [("variable.go", "\tkey := VariableKey(size + 1)\n\tcc.VariableKeyMap[name] = key", "\tkey := VariableKey(size)\n\tcc.VariableKeyMap[name] = key")])
mut("slice_fetcher_threshold_256", ["C11"], "NewCtxFromVars/",
    [("variable.go", "\tif minKey <= maxKey && 0 <= minKey && maxKey < 256 {", "\tif minKey <= maxKey && -1 <= minKey && maxKey < 256 {")], "slice fetcher chosen although a key is -1")
mut("unify_uint32_through_int32", ["C11"], "unifyType/post/scalars-and-identity",
    [("variable.go", "\tcase uint32:\n\t\treturn int64(v)", "\tcase uint32:\n\t\treturn int64(int32(v))")])
mut("slice_fetcher_one_short", ["C11"], "NewSliceVarFetcher/",
    [("variable.go", "\tfetcher := make([]Value, maxKey+1)", "\tfetcher := make([]Value, maxKey)")])
mut("map_fetcher_skips_zero_values", ["C11"], "NewMapVarFetcher/",
    [("variable.go", "\tfor name, val := range vals {\n\t\ts[name] = unifyType(val)\n\t}", "\tfor name, val := range vals {\n\t\tif val != 0 {\n\t\t\ts[name] = unifyType(val)\n\t\t}\n\t}")], "a variable bound to int 0 is dropped")
mut("duration_rounds_to_millis", ["C11"], "unifyType/post/scalars-and-identity",
    [("variable.go", "\t\treturn int64(v / time.Second)", "\t\treturn int64(v / time.Millisecond)")])

# ---- C16
mut("reordering_sorts_eq_operands", ["C16"], "sweep/guardedcall:reordering",
    [("compiler.go", "\tif !isBoolOpNode(root.node) {\n\t\treturn\n\t}\n\n\t// reordering child nodes based on node cost", "\tif !isBoolOpNode(root.node) && root.node.value != \"eq\" {\n\t\treturn\n\t}\n\n\t// reordering child nodes based on node cost")], "operands of eq are sorted too")
mut("cost_if_takes_min_branch", ["C16"], "calculateNodeCosts/post/cost-formula",
    [("compiler.go", "\t\tchildrenCost = children[0].cost + math.Max(children[1].cost, children[2].cost)", "\t\tchildrenCost = children[0].cost + math.Min(children[1].cost, children[2].cost)")])
mut("cost_class_default_ignored_for_fast", ["C16"], "Config.getCosts/post/class-default",
    [("compiler.go", "\tcase operator, fastOperator:\n\t\tif v, exist := cc.CostsMap[operatorNode]; exist {", "\tcase operator:\n\t\tif v, exist := cc.CostsMap[operatorNode]; exist {")])
mut("reordering_unstable_on_ties", ["C16"], "optimizeReordering.$1/post/less-is-cost-order",
    [("compiler.go", "\t\treturn root.children[i].cost < root.children[j].cost", "\t\treturn root.children[i].cost <= root.children[j].cost")], "ties are reversed")
mut("cost_skips_last_operand", ["C16"], "calculateNodeCosts/",
    [("compiler.go", "\t\tfor _, child := range children {\n\t\t\tchildrenCost += child.cost\n\t\t}", "\t\tfor _, child := range children[:len(children)/2*2] {\n\t\t\tchildrenCost += child.cost\n\t\t}")], "odd operand counts drop the last operand from the cost")
mut("reordering_rewrites_node_flag", ["C16"], "sweep/writeset:reordering",
    [("compiler.go", "\tcalculateNodeCosts(cc, root)\n\n\tif !isBoolOpNode(root.node) {", "\tcalculateNodeCosts(cc, root)\n\tif root.cost < 0 {\n\t\troot.children = root.children[:1]\n\t}\n\n\tif !isBoolOpNode(root.node) {")], "negative total cost truncates the operand list")
# ---- C01 (operator calls receive exactly the operand values)
mut("eval_params_copied_from_wrong_slot", ["C01"], "Expr.Eval/callsite/params-are-operands",
    [("engine.go", "\t\t\t\tparams = make([]Value, cCnt)\n\t\t\t\tcopy(params, os[osTop+1:])\n\t\t\t}\n\n\t\t\tres, err = curt.operator(ctx, params)",
      "\t\t\t\tparams = make([]Value, cCnt)\n\t\t\t\tcopy(params, os[osTop+2:])\n\t\t\t}\n\n\t\t\tres, err = curt.operator(ctx, params)")], "n-ary operators get their operands shifted by one stack slot")
mut("tryeval_params_one_too_long", ["C04"], "Expr.TryEval/callsite/executeOperatorProxy:params-are-operands",
    [("engine.go", "\t\t\t\tparam = make([]Value, cCnt)\n\t\t\t\tcopy(param, os[osTop+1:])", "\t\t\t\tparam = make([]Value, cCnt+1)\n\t\t\t\tcopy(param, os[osTop+1:])")], "TryEval passes one stale extra operand to n-ary operators")
# ---- C02 (directive lines)
mut("parseconfig_stops_after_optimize_pair", ["C02"], "parser.parseConfig/exit/loop2[every-pair-of-the-line-processed]/break",
    [("parser.go", "\t\t\tdefault:\n\t\t\t\treturn p.errWithToken(fmt.Errorf(\"unsupported compile config %s\", s), t)\n\t\t\t}\n",
      "\t\t\tdefault:\n\t\t\t\treturn p.errWithToken(fmt.Errorf(\"unsupported compile config %s\", s), t)\n\t\t\t}\n\t\t\tif option == Optimize {\n\t\t\t\tbreak\n\t\t\t}\n")], "pairs after optimize: on the same directive line are dropped")
mut("fasteval_accepts_zero_operand_calls", ["C02"], "optimizeFastEvaluation/",
    [("compiler.go", "\t\ttyp := child.node.getNodeType()\n\t\tif typ == constant || typ == variable {\n\t\t\tcontinue\n\t\t}\n\t\treturn\n\t}\n\n\totherPartMask",
      "\t\ttyp := child.node.getNodeType()\n\t\tif typ == constant || typ == variable || len(child.children) == 0 {\n\t\t\tcontinue\n\t\t}\n\t\treturn\n\t}\n\n\totherPartMask")], "an operator call without operands is inlined as if it were a leaf")
mut("fasteval_clears_shortcircuit_bits", ["C02"], "optimizeFastEvaluation/storesite/node.flag[fast-only-for-two-leaf-operands]",
    [("compiler.go", "\totherPartMask := nodeTypeMask ^ uint8(0xFF)\n\n\troot.node.flag = fastOperator | (root.node.flag & otherPartMask)", "\totherPartMask := nodeTypeMask ^ uint8(0x7F)\n\n\troot.node.flag = fastOperator | (root.node.flag & otherPartMask)")], "the rewrite drops the top flag bit")
# ---- C09 (stack maximum)
mut("stack_max_ignores_last_node", ["C09"], "calAndSetStackSize/",
    [("compiler.go", "\tfor i, n := range e.nodes {\n\t\tmaxStackSize = maxInt16(maxStackSize, f[i])\n\t\tn.osTop = f[i] - 1\n\t}",
      "\tfor i, n := range e.nodes {\n\t\tif i+1 < len(e.nodes) {\n\t\t\tmaxStackSize = maxInt16(maxStackSize, f[i])\n\t\t}\n\t\tn.osTop = f[i] - 1\n\t}")], "the root's own height does not count towards the stack maximum")
# ---- C01 (name resolution order)
mut("leaf_variable_before_constant", ["C01"], "parser.setLeafNodeParsers/post/resolution-order",
    [("parser.go", "\t\tp.parseInt, p.parseStr, p.parseConst, p.parseVariable, p.parseUnknownVariable}", "\t\tp.parseInt, p.parseStr, p.parseVariable, p.parseConst, p.parseUnknownVariable}")], "a name that is both a constant and a variable resolves to the variable")
# ---- C01 / C03 (short-circuit pass)
mut("sc_and_operand_jumps_on_true", ["C03"], "calAndSetShortCircuit/",
    [("compiler.go", "\t\tcase isAndOpNode(p):\n\t\t\tflag |= scIfFalse\n\t\tcase isOrOpNode(p):\n\t\t\tflag |= scIfTrue\n\t\tdefault:\n\t\t\tf[i] = i",
      "\t\tcase isAndOpNode(p):\n\t\t\tflag |= scIfTrue\n\t\tcase isOrOpNode(p):\n\t\t\tflag |= scIfTrue\n\t\tdefault:\n\t\t\tf[i] = i")], "an operand of and short-circuits on true")
mut("sc_climb_on_any_common_bit", ["C01"], "calAndSetShortCircuit/",
    [("compiler.go", "\t\tfor p.flag&flag == flag {", "\t\tfor p.flag&flag != 0 {")], "the last operand climbs through a parent that is decided by only one of its two values")
mut("sc_last_child_off_by_one", ["C03"], "calAndSetShortCircuit/",
    [("compiler.go", "\t\t\t\treturn pIdx == idx+1\n", "\t\t\t\treturn pIdx == idx+1 || pIdx == idx+2\n")], "the operand before the last one is treated as the last")
mut("sc_root_target_not_encoded", ["C01"], "calAndSetShortCircuit/",
    [("compiler.go", "\t\tif f[i] == size-1 {\n\t\t\tn.scIdx = -1", "\t\tif f[i] == size {\n\t\t\tn.scIdx = -1")], "a jump to the root is not encoded as -1")
mut("sc_if_condition_inherits", ["C03"], "calAndSetShortCircuit/",
    [("compiler.go", "\t\tif pIdx != -1 && p.getNodeType() == cond && i > pIdx {\n\t\t\tif f[pIdx] != pIdx {", "\t\tif pIdx != -1 && p.getNodeType() == cond {\n\t\t\tif f[pIdx] != pIdx {")], "the condition of an if inherits the jumps of the if expression")
mut("sc_second_pass_drops_target", ["C01"], "calAndSetShortCircuit/",
    [("compiler.go", "\t\t\t\tn.flag |= p.flag & scMask\n\t\t\t\tf[i] = f[pIdx]", "\t\t\t\tn.flag |= p.flag & scMask\n\t\t\t\tf[i] = pIdx")], "an if branch jumps to the if node instead of the if node's target")
# ---- C02 / C06 (nesting reduction)
mut("reduce_nesting_drops_first_grandchild", ["C06"], "optimizeReduceNesting/safety",
    [("compiler.go", "\t\t\tchildren = append(children, child.children...)\n", "\t\t\tchildren = append(children, child.children[1:]...)\n")], "flattening skips the first operand of the nested operator (and slices an empty operand list)")
mut("reduce_nesting_rewrites_child_list", ["C02"], "optimizeReduceNesting/storesite",
    [("compiler.go", "\t\tif isAndOpNode(cn) == rootOpType {\n\t\t\tchildren = append(children, child.children...)\n",
      "\t\tif isAndOpNode(cn) == rootOpType {\n\t\t\tchildren = append(children, child.children...)\n\t\t\tchild.children = nil\n")], "flattening also empties the nested operator, which other references still use")
# ---- C01 (integer literals are decimal)
mut("int_literal_base_prefixes", ["C01"], "parser.parseInt/post/integer-literal-is-decimal-int64",
    [("parser.go", "\tv, err := strconv.ParseInt(t.val, 10, 64)\n\tif err != nil {\n\t\treturn nil, err\n\t}\n\tp.walk()", "\tv, err := strconv.ParseInt(t.val, 0, 64)\n\tif err != nil {\n\t\treturn nil, err\n\t}\n\tp.walk()")], "010 is read as octal")
mut("int_list_elements_32bit", ["C01"], "parser.parseList.$1/inv/loop2[elements-are-decimal-int64",
    [("parser.go", "\t\t\t\tv, err := strconv.ParseInt(s, 10, 64)\n\t\t\t\tif err != nil {\n\t\t\t\t\treturn nil, err\n\t\t\t\t}\n\t\t\t\tints = append(ints, v)",
      "\t\t\t\tv, err := strconv.ParseInt(s, 10, 32)\n\t\t\t\tif err != nil {\n\t\t\t\t\treturn nil, err\n\t\t\t\t}\n\t\t\t\tints = append(ints, v)")], "list elements beyond int32 are rejected")
mut("lexer_accepts_hex_integers", ["C01"], "parser.lex.isValidInt/",
    [("parser.go", "\t\t\t_, err := strconv.ParseInt(s, 10, 64)\n\t\t\treturn err == nil", "\t\t\t_, err := strconv.ParseInt(s, 0, 64)\n\t\t\treturn err == nil")], "0x10 becomes an integer token that parseInt then rejects")
# ---- round-3 seeds turned into corpus entries
mut("infix_nullary_call_rejected", ["C15"], "bnd/c15/infix=prefix",
    [("parser.go", "\t\t\tif cnt < 0 || cnt > len(outputStack) {", "\t\t\tif cnt <= 0 || cnt > len(outputStack) {")], "f() is rejected in infix while (f) compiles")
mut("fast_operand_read_without_cached", ["C05", "C04"], "getNodeValueProxy/post/unavailable-variable-is-DNE",
    [("engine.go", "\t} else {\n\t\tres, err = fetchVariableValueProxy(ctx, n)\n\t}\n\treturn", "\t} else if n.varKey > 0 {\n\t\tres, err = ctx.Get(n.varKey, n.value.(string))\n\t} else {\n\t\tres, err = fetchVariableValueProxy(ctx, n)\n\t}\n\treturn")], "operands of a fast operator with a registered key skip the Cached test")
mut("check_before_optimize", ["C02", "C06", "C09"], "sweep/callorder:compile",
    [("compiler.go", "\toptimize(conf, ast)\n\n\tres := check(ast)\n\tif res.err != nil {\n\t\treturn nil, res.err\n\t}\n", "\tres := check(ast)\n\tif res.err != nil {\n\t\treturn nil, res.err\n\t}\n\n\toptimize(conf, ast)\n")], "limits are checked on the tree before nesting reduction grows it")
mut("stack_else_branch_base_only_for_leaves", ["C01"], "calAndSetStackSize/",
    [("compiler.go", "\t\tif isEndIfNode(e, prev) {\n\t\t\t_, prev = parentNode(e, prev)\n\t\t}\n\n\t\tn := e.nodes[i]\n\t\tswitch n.getNodeType() {\n\t\tcase constant, variable, fastOperator:\n\t\t\tf[i] = f[prev] + 1",
      "\t\tn := e.nodes[i]\n\t\tswitch n.getNodeType() {\n\t\tcase constant, variable, fastOperator:\n\t\t\tif isEndIfNode(e, prev) {\n\t\t\t\t_, prev = parentNode(e, prev)\n\t\t\t}\n\t\t\tf[i] = f[prev] + 1")], "an else branch that starts with a zero-operand operator is laid out one slot too high")
mut("stack_operator_keeps_one_operand", ["C01"], "calAndSetStackSize/",
    [("compiler.go", "\t\t\tf[i] = f[prev] - int16(n.childCnt) + 1\n", "\t\t\tf[i] = f[prev] - int16(n.childCnt) + 1\n\t\t\tif n.childCnt > 8 {\n\t\t\t\tf[i]++\n\t\t\t}\n")], "operators with more than eight operands leave one extra slot")
mut("opexec_params_copied_after_the_call", ["C12"], "calAndSetEventNode.wrapOpEvent.$1/post/params-private-copy",
    [("compiler.go", "\t\t\teventParams := make([]Value, len(params))\n\t\t\tcopy(eventParams, params)\n\n\t\t\tres, err = op(ctx, params)\n", "\t\t\tres, err = op(ctx, params)\n\t\t\teventParams := make([]Value, len(params))\n\t\t\tcopy(eventParams, params)\n")], "the event shows the arguments as the operator left them, not as it was called")
mut("dump_takes_operand_slots_of_any_late_kind", ["C06"], "Dump.getChildIdxes/safety",
    [("util.go", "\t\tif e.nodes[idx].getNodeType() == cond {\n\t\t\tres = []int16{", "\t\tif e.nodes[idx].getNodeType() >= cond {\n\t\t\tres = []int16{")], "Dump indexes four operand slots of event nodes as well")
mut("split_lines_cuts_one_byte_late", ["C06"], "splitLinesOutsideStrings/",
    [("util.go", "\t\t\t\tres = append(res, s[start:i])\n\t\t\t\tstart = i + 1", "\t\t\t\tres = append(res, s[start:i])\n\t\t\t\tstart = i + 2")], "the text after a final line break is sliced beyond its end")
mut("parent_table_one_slot_short", ["C09"], "calAndSetParentIndex/",
    [("compiler.go", "\tsize := int16(len(e.nodes))\n\tf := make([]int16, size)\n\n\tqueue := make([]*astNode, 0, size)", "\tsize := int16(len(e.nodes))\n\tf := make([]int16, size-1)\n\n\tqueue := make([]*astNode, 0, size)")], "the parent table misses the slot of the last node")
mut("comment_also_ends_at_carriage_return", ["C14"], "comment-ends-only-at-a-line-feed",
    [("parser.go", "\t\t\t\tif A[i] == '\\n' {\n\t\t\t\t\tbreak\n\t\t\t\t}\n\t\t\t}\n\t\t\treturn string(A[start:i]), nil", "\t\t\t\tif A[i] == '\\n' || A[i] == '\\r' {\n\t\t\t\t\tbreak\n\t\t\t\t}\n\t\t\t}\n\t\t\treturn string(A[start:i]), nil")], "a lone CR inside a comment turns the rest of the line into tokens")
mut("formatter_literal_only_after_separator", ["C14"], "bnd/c14/formatter-keeps-tokens",
    [("util.go", "\t\tcase c == '\"':\n\t\t\t// a string literal is copied verbatim", "\t\tcase c == '\"' && prev != normal:\n\t\t\t// a string literal is copied verbatim")], "a literal directly after another literal is re-laid-out")
# ---- C01 (node construction)
mut("operator_node_built_as_fast_operator", ["C01"], "parser.buildParentNode/post/operator-node",
    [("parser.go", "\t\tnode: &node{\n\t\t\tflag:     operator,\n\t\t\tvalue:    car.val,", "\t\tnode: &node{\n\t\t\tflag:     fastOperator,\n\t\t\tvalue:    car.val,")], "operator nodes are born as fast operators whatever their operands")
mut("end_if_marker_shares_condition_closure", ["C01"], "fi-always-jumps",
    [("parser.go", "\t\t\t\toperator: func(_ *Ctx, _ []Value) (Value, error) {\n\t\t\t\t\treturn true, nil\n\t\t\t\t},", "\t\t\t\toperator: func(_ *Ctx, ps []Value) (Value, error) {\n\t\t\t\t\treturn len(ps) < 2, nil\n\t\t\t\t},")], "the end-if marker's jump depends on its arguments")
mut("variable_node_without_its_key", ["C11"], "parser.parseVariable/post/variable-carries-name-and-registered-key",
    [("parser.go", "\t\t\tflag:   variable,\n\t\t\tvalue:  t.val,\n\t\t\tvarKey: key,", "\t\t\tflag:   variable,\n\t\t\tvalue:  t.val,\n\t\t\tvarKey: key & 0xff,")], "keys above 255 are truncated in the variable node")
mut("configured_constant_shadows_builtin", ["C01"], "parser.parseConst/post/constant-by-name",
    [("parser.go", "\tif val, ok := builtinConstants[t.val]; ok {\n\t\tp.walk()\n\t\treturn p.valNode(val), nil\n\t}\n\n\tif val, ok := p.conf.ConstantMap[t.val]; ok {",
      "\tif val, ok := p.conf.ConstantMap[t.val]; ok {\n\t\tp.walk()\n\t\treturn p.valNode(val), nil\n\t}\n\n\tif val, ok := builtinConstants[t.val]; ok {")], "a configured constant named true replaces the built-in")
mut("register_operator_overwrites", ["C10"], "RegisterOperator/post/",
    [("operator.go", "\tif _, exist := cc.OperatorMap[name]; exist {\n\t\treturn fmt.Errorf(\"operator already exist %s\", name)\n\t}\n", "\tif _, exist := cc.OperatorMap[name]; exist {\n\t\tcc.OperatorMap[name] = op\n\t\treturn fmt.Errorf(\"operator already exist %s\", name)\n\t}\n")], "a refused registration still replaces the registered operator")
mut("parser_shares_config_for_plain_sources", ["C08"], "newParser/post/private-config",
    [("parser.go", "\treturn &parser{\n\t\tsource: source,\n\t\tconf:   CopyConfig(cc),\n\t}", "\tconf := cc\n\tif cc == nil || strings.Contains(source, \";;;;\") {\n\t\tconf = CopyConfig(cc)\n\t}\n\treturn &parser{\n\t\tsource: source,\n\t\tconf:   conf,\n\t}")], "sources without a directive are parsed with the caller's config")
mut("formatter_literal_scan_reads_past_the_end", ["C14"], "IndentByParentheses/safety",
    [("util.go", "\t\t\tfor i++; i < len(A); i++ {\n\t\t\t\tsb.WriteRune(A[i])\n\t\t\t\tif A[i] == '\"' {", "\t\t\tfor i++; i <= len(A); i++ {\n\t\t\t\tsb.WriteRune(A[i])\n\t\t\t\tif A[i] == '\"' {")], "an unclosed literal makes the formatter read one rune past the end")
mut("or_alias_double_bar_forgotten", ["C03"], "isOrOpNode/post/or-and-its-aliases",
    [("compiler.go", '\treturn v == "or" || v == "|" || v == "||"', '\treturn v == "or" || v == "|"')], "operands of || are no longer recognised as operands of or")
mut("slice_fetcher_set_off_by_one", ["C11"], "SliceVarFetcher.Set/",
    [("variable.go", "\tif int(key) >= len(s) {\n\t\treturn fmt.Errorf(\"variableKey not exist %d\", key)\n\t}\n\ts[key] = val", "\tif int(key) > len(s) {\n\t\treturn fmt.Errorf(\"variableKey not exist %d\", key)\n\t}\n\ts[key] = val")], "Set accepts the key one past the end")
# ---- probes of mechanisms that only the bounded tier covers
mut("reduce_nesting_merges_any_bool_operator", ["C02"], "bnd/",
    [("compiler.go", "\t\tif isAndOpNode(cn) == rootOpType {\n\t\t\tchildren = append(children, child.children...)", "\t\tif isAndOpNode(cn) == rootOpType || len(child.children) == 2 {\n\t\t\tchildren = append(children, child.children...)")], "a two-operand or inside an and (or vice versa) is flattened into its parent")
mut("dump_if_takes_fi_as_else", ["C13"], "bnd/redump",
    [("util.go", "\t\t\t\tres[3], // false branch", "\t\t\t\tres[2], // false branch")], "Dump prints the end-if marker instead of the else branch")
mut("lexer_bang_split_keeps_bang", ["C15"], "bnd/c15",
    [("parser.go", "\t\t\t\tp.tokens = append(p.tokens, token{typ: ident, val: \"!\"})\n\t\t\t\tp.tokens = append(p.tokens, token{typ: ident, val: next})", "\t\t\t\tp.tokens = append(p.tokens, token{typ: ident, val: \"!\"})\n\t\t\t\tp.tokens = append(p.tokens, token{typ: ident, val: t})")], "!name is split into ! and !name")
mut("empty_list_is_int_list", ["C17"], "parser.parseList.$1/post/",
    [("parser.go", "\t\tif typ == integer {\n\t\t\tints := make([]int64, 0, len(strs))", "\t\tif typ == integer || len(strs) == 0 {\n\t\t\tints := make([]int64, 0, len(strs))")], "the empty list literal is an empty int list")
mut("generator_zero_check_skips_second_operand", ["C20"], "GenerateRandomExpr.helper/",
    [("util.go", "\t\t\tfor _, res := range childRes[1:] {\n\t\t\t\tif res == int64(0) {", "\t\t\tfor _, res := range childRes[2:] {\n\t\t\t\tif res == int64(0) {")], "a zero second operand no longer excludes / and %")
mut("event_scidx_points_to_event_node", ["C12"], "bnd/",
    [("compiler.go", "\t\tif n.scIdx != -1 {\n\t\t\tn.scIdx = realIdxes[n.scIdx]\n\t\t}", "\t\tif n.scIdx != -1 {\n\t\t\tn.scIdx = eventNodeIdxes[n.scIdx]\n\t\t}")], "with events on, short-circuit jumps land on the event node in front of the target")
# ---- canaries: the fixed findings must be reported again when their fix is reverted
revert("canary_F5_event_doubling", ["C09"], "bnd/boundary-compile", "4508160")
revert("canary_F6_event_params_alias", ["C12"], "calAndSetEventNode.wrapOpEvent.$1/post/", "5a3fd95")
revert("canary_F7_dump_quotes", ["C13"], "", "790e840")
revert("canary_F8_overlap_empty_left", ["C17"], "listOverlap/post/emptylist-int", "8e15953")
revert("canary_F9_tryeval_if_operand", ["C04"], "bnd/try=eval", "92e24e6")
revert("canary_F10_prefix_bang", ["C15"], "bnd/c15/infix=prefix", "fdaf73b")
revert("canary_F11_formatter_literals", ["C14"], "bnd/c14/formatter-keeps-tokens", "cf66b3b")
revert("canary_F7b_dump_multiline", ["C13"], "bnd/redump", "511d1d0")
# ---- C14 (token boundaries)
mut("lexer_only_ascii_blank_separators", ["C14"], "parser.lex/inv/loop1[token-body-has-no-separator]",
    [("parser.go", "\t\t\t\tif unicode.IsSpace(r) {\n\t\t\t\t\tif i == start {", "\t\t\t\tif r == ' ' || r == '\\t' || r == '\\n' || r == '\\r' {\n\t\t\t\t\tif i == start {")], "only blank, tab, LF, CR separate tokens")
mut("lexer_comma_not_a_delimiter", ["C14"], "parser.lex/",
    [("parser.go", 'if strings.ContainsRune("()[];,", r) {', 'if strings.ContainsRune("()[];", r) {')], "a comma no longer ends a token")
mut("compile_checks_size_before_optimizing", ["C09"], "sweep/callorder:compile/Compile/optimize-before-check",
    [("compiler.go", "\toptimize(conf, ast)\n\n\tres := check(ast)\n\tif res.err != nil {\n\t\treturn nil, res.err\n\t}\n", "\tres := check(ast)\n\tif res.err != nil {\n\t\treturn nil, res.err\n\t}\n\n\toptimize(conf, ast)\n")], "the size / arity limits are checked on the tree before optimisation")
mut("lexer_string_backslash_escapes", ["C13"], "parser.lex/inv/loop1[literal-ends-at-the-first-quote]",
    [("parser.go", "\t\t\tfor ; i < len(A); i++ {\n\t\t\t\tif A[i] == '\"' {\n\t\t\t\t\ti++\n\t\t\t\t\treturn string(A[start:i]), nil", "\t\t\tfor ; i < len(A); i++ {\n\t\t\t\tif A[i] == '\\\\' && i+1 < len(A) {\n\t\t\t\t\ti++\n\t\t\t\t\tcontinue\n\t\t\t\t}\n\t\t\t\tif A[i] == '\"' {\n\t\t\t\t\ti++\n\t\t\t\t\treturn string(A[start:i]), nil")], "the lexer starts to honour backslash escapes inside string literals (Dump prints raw text)")
mut("infix_ties_do_not_reduce", ["C15"], "parser.parseInfixExpression/exit/loop1[reduction-stops-only-below-a-looser-operator]",
    [("parser.go", "\t\t\t\tif comparePrecedence(car, top.t) > 0 {\n\t\t\t\t\tbreak", "\t\t\t\tif comparePrecedence(car, top.t) >= 0 {\n\t\t\t\t\tbreak")], "operators of equal precedence group from the right")
mut("generator_safe_pool_contains_mod", ["C20"], "GenerateRandomExpr/pre/GenerateRandomExpr.helper[operator-pools]",
    [("util.go", '\t\tnumSafeOps = []string{"+", "-", "*"}', '\t\tnumSafeOps = []string{"+", "-", "*", "%"}')], "the pool used when an operand is 0 contains %")
mut("rco_or_operand_gets_and_bit", ["C04"], "calAndSetShortCircuitForRCO/",
    [("compiler.go", "\t\tcase isOrOpNode(p):\n\t\t\tn.flag |= orOp\n\t\tcase p.getNodeType() == cond", "\t\tcase isOrOpNode(p):\n\t\t\tn.flag |= andOp\n\t\tcase p.getNodeType() == cond")], "operands of or are flagged as operands of and")
mut("rco_condition_inherits_instead_of_branches", ["C04"], "calAndSetShortCircuitForRCO/",
    [("compiler.go", "\t\tcase p.getNodeType() == cond && int16(i) > pIdx && n.value != \"fi\":", "\t\tcase p.getNodeType() == cond && int16(i) < pIdx && n.value != \"fi\":")], "the condition of an if inherits the enclosing and/or flag instead of the branches")
mut("registered_operator_shadows_builtin", ["C02"], "parser.getOperator/post/builtin-first",
    [("parser.go", "\top, exist := builtinOperators[opName]\n\tif !exist {\n\t\top, exist = p.conf.OperatorMap[opName]\n\t}\n\treturn op, exist", "\top, exist := p.conf.OperatorMap[opName]\n\tif !exist {\n\t\top, exist = builtinOperators[opName]\n\t}\n\treturn op, exist")], "a registered operator with a built-in name shadows the built-in (constant folding still uses the built-in)")
mut("event_wrapper_shares_one_params_buffer", ["C07"], "sweep/frame:eval/calAndSetEventNode.wrapOpEvent.$1",
    [("compiler.go", "\t\t\tisFastOp = n.getNodeType() == fastOperator\n\t\t)", "\t\t\tisFastOp = n.getNodeType() == fastOperator\n\t\t\tshared   = make([]Value, 0, 8)\n\t\t)"),
     ("compiler.go", "\t\t\teventParams := make([]Value, len(params))\n\t\t\tcopy(eventParams, params)", "\t\t\teventParams := shared[:0]\n\t\t\teventParams = append(eventParams, params...)")], "the OP_EXEC wrapper reuses one buffer allocated when the program was built")

def main():
    out = os.path.join(os.path.dirname(os.path.abspath(__file__)), "mutants")
    os.makedirs(out, exist_ok=True)
    for f in os.listdir(out):
        os.remove(os.path.join(out, f))
    bad = 0
    for name, props, expect, edits, note in M:
        a = tempfile.mkdtemp(prefix="/tmp/mkmut-a."); b = tempfile.mkdtemp(prefix="/tmp/mkmut-b.")
        try:
            files = sorted(set(e[0] for e in edits))
            for f in files:
                shutil.copy("/repo/" + f, a); shutil.copy("/repo/" + f, b)
            for f, old, new in edits:
                s = open(os.path.join(b, f)).read()
                if s.count(old) != 1:
                    print("MUTANT %s: pattern occurs %d times in %s" % (name, s.count(old), f)); bad += 1; continue
                open(os.path.join(b, f), "w").write(s.replace(old, new))
            patch = ""
            for f in files:
                r = subprocess.run(["diff", "-u", "--label", "a/" + f, "--label", "b/" + f, os.path.join(a, f), os.path.join(b, f)], capture_output=True, text=True)
                patch += r.stdout
            open(os.path.join(out, name + ".patch"), "w").write(patch)
            json.dump({"name": name, "properties": props, "expect_obligation": expect, "note": note}, open(os.path.join(out, name + ".json"), "w"), indent=1)
        finally:
            shutil.rmtree(a); shutil.rmtree(b)
    for name, props, expect, commit, note in R:
        r = subprocess.run(["git", "-C", "/repo", "show", "-R", "--format=", commit, "--", "*.go", ":!verif_contracts.go", ":!*_test.go"], capture_output=True, text=True)
        chk = subprocess.run(["git", "-C", "/repo", "apply", "--check", "-"], input=r.stdout, capture_output=True, text=True)
        if r.returncode != 0 or not r.stdout.strip() or chk.returncode != 0:
            print("CANARY %s: reverse of %s does not apply: %s" % (name, commit, chk.stderr.strip()[:200])); bad += 1; continue
        open(os.path.join(out, name + ".patch"), "w").write(r.stdout)
        json.dump({"name": name, "properties": props, "expect_obligation": expect, "note": note or ("reverse of fix commit " + commit)}, open(os.path.join(out, name + ".json"), "w"), indent=1)
    print("%d mutants written, %d bad" % (len(M) + len(R), bad))
    sys.exit(1 if bad else 0)
if __name__ == "__main__":
    main()
