import Mathlib.Data.Finset.Card
import Mathlib.Order.Interval.Finset.Nat

/-!
The counting fact used as the named axiom `pigeonhole` in the contract of `GetOrRegisterKey`
(/repo/verif_contracts.go): let `S` be the set of keys in use (the range of the injective key map,
so `S.card` is the number of registered names `n`).  If every key `1..n` is in use, then the keys in
use are exactly `1..n`; in particular every key in use lies in `1..n` and `n + 1` is free.
-/

theorem pigeon_range (S : Finset ℕ) (n : ℕ) (hcard : S.card = n)
    (hsub : Finset.Icc 1 n ⊆ S) : ∀ k ∈ S, 1 ≤ k ∧ k ≤ n := by
  have h : Finset.Icc 1 n = S :=
    Finset.eq_of_subset_of_card_le hsub (by simp [hcard])
  intro k hk
  rw [← h] at hk
  simpa using hk

theorem pigeon (S : Finset ℕ) (n : ℕ) (hcard : S.card = n)
    (hsub : Finset.Icc 1 n ⊆ S) : n + 1 ∉ S := by
  intro hmem
  have := (pigeon_range S n hcard hsub (n + 1) hmem).2
  omega
