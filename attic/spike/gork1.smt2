(set-logic ALL)
(declare-sort Name 0)
(declare-fun mp (Name) Bool)      ; presence
(declare-fun mk (Name) Int)       ; key
(declare-const size Int)
(declare-fun enum (Int) Name)
(assert (>= size 0))
; enumeration: distinct, covering
(assert (forall ((i Int)) (=> (and (<= 0 i) (< i size)) (mp (enum i)))))
(assert (forall ((i Int) (j Int)) (=> (and (<= 0 i) (< i j) (< j size)) (not (= (enum i) (enum j))))))
(declare-fun idx (Name) Int)
(assert (forall ((n Name)) (=> (mp n) (and (<= 0 (idx n)) (< (idx n) size) (= (enum (idx n)) n)))))
; loop-1 invariant preservation
(declare-const ks0 (Array Int Bool))
(declare-const j Int)
(assert (and (<= 0 j) (< j size)))
(assert (forall ((k Int)) (= (select ks0 k) (exists ((i Int)) (and (<= 0 i) (< i j) (= (mk (enum i)) k))))))
(define-fun ks1 () (Array Int Bool) (store ks0 (mk (enum j)) true))
(assert (not (forall ((k Int)) (= (select ks1 k) (exists ((i Int)) (and (<= 0 i) (< i (+ j 1)) (= (mk (enum i)) k)))))))
(check-sat)
