package bounded

// Relations: what is claimed about one exported program, turned into
// obligations.  Every symbolic relation is "for all paths of the unrolled real
// code: pc => relation", i.e. one query asserting the disjunction of
// (pc and not relation) over the paths.

import (
	"encoding/json"
	"fmt"
	"sort"
	"strings"
	"sync"

	"golang.org/x/tools/go/ssa"

	"govc/internal/core"
)

// Case is one source under one configuration with its exported program.
type Case struct {
	Src   *Src
	Text  string
	Job   Job
	Prog  *XProg
	Cfg   string
	group *caseGroup
	Full  string // real source text when Text is a generator name (boundary programs)
	Alt   *XProg // companion program: the same source and options compiled WITHOUT ReportEvent (C12), or the recompiled Dump (C13)
}

// Checker is the state of one engine run.
type Checker struct {
	env      *core.Env
	m        *Machine
	prop     string
	MaxPaths int

	mu          sync.Mutex
	values      map[string][]string // obligation name -> get-value terms
	nPaths      int64
	nUnroll     int64
	nCached     int64
	nOver       int64
	nSameAsBase int64
}

// Unrolled is the set of paths of one unrolling of the real code.
type Unrolled struct {
	Paths []PathOut // Out is *RunResult
	Trunc bool
}

func NewChecker(env *core.Env, m *Machine, prop string) *Checker {
	return &Checker{env: env, m: m, prop: prop, MaxPaths: 8000, values: map[string][]string{}}
}

// dropChunk releases what is only needed while a chunk of sources is processed.
func (cx *Checker) dropChunk() {
	cx.mu.Lock()
	cx.values = map[string][]string{}
	cx.mu.Unlock()
}

func (cx *Checker) fn(method string) *ssa.Function {
	if method == "TryEval" {
		return cx.m.TryEval
	}
	return cx.m.Eval
}

func domKey(d *Domain) string { return fmt.Sprintf("b%v.a%v.n%v", d.AllBound, d.AllAvail, d.NoNil) }

// Unroll enumerates the paths of method on the case's program. The result is
// cached by program fingerprint within the group of cases of one source (the
// optimisation subsets and cost maps of a source often compile to the same program).
func (cx *Checker) Unroll(c *Case, method string, dom *Domain) *Unrolled {
	p := c.Prog
	key := method + "|" + p.FP + "|" + domKey(dom)
	if c.group != nil {
		if u, ok := c.group.unrolled[key]; ok {
			cx.mu.Lock()
			cx.nCached++
			cx.mu.Unlock()
			return u
		}
	}
	outs, trunc := EnumeratePaths(dom, cx.MaxPaths, func(r *Path) interface{} {
		return cx.m.Exec(r, cx.fn(method), p, nil)
	})
	u := &Unrolled{Paths: outs, Trunc: trunc}
	cx.mu.Lock()
	cx.nPaths += int64(len(outs))
	cx.nUnroll++
	cx.mu.Unlock()
	if c.group != nil {
		c.group.unrolled[key] = u
	}
	return u
}

// caseGroup: the cases of one source, processed sequentially by one goroutine.
type caseGroup struct {
	unrolled map[string]*Unrolled
}

// ---------------------------------------------------------------- query assembly

// BuildQuery renders: prelude, list definitions, declarations, domain
// assumptions, named reference definitions, and the assertion (or bad...).
func BuildQuery(dom *Domain, defs *Defs, extra []*T, bad []*T) (text string, values []string) {
	all := append([]*T{}, bad...)
	all = append(all, extra...)
	if defs != nil {
		all = append(all, defs.Bodies()...)
	}
	assume := dom.Assumptions(all...)
	assume = append(assume, GroundAxioms(all...)...)
	all = append(all, assume...)
	d := NewDecls()
	if defs != nil {
		d.Skip(defs.Names()...)
	}
	d.Add(all...)
	var sb strings.Builder
	sb.WriteString(PreludeSMT)
	sb.WriteString(ListDefs(all...))
	sb.WriteString(d.Text())
	if defs != nil {
		sb.WriteString(defs.Text())
	}
	for _, a := range assume {
		sb.WriteString("(assert " + a.String() + ")\n")
	}
	for _, a := range extra {
		sb.WriteString("(assert " + a.String() + ")\n")
	}
	sb.WriteString("(assert (or false")
	for _, b := range bad {
		sb.WriteString("\n  " + b.String())
	}
	sb.WriteString("))\n")
	// model terms: every oracle constant, every custom application with its arguments
	seen := map[string]bool{}
	addv := func(t *T) {
		if !seen[t.String()] {
			seen[t.String()] = true
			values = append(values, t.String())
		}
	}
	for _, x := range Apps([]string{"gv_", "ge_", "gw_", "gwe_", "av_", "aw_", "cv_", "ce_"}, all...) {
		addv(x)
		if strings.HasPrefix(x.Op, "cv_") {
			addv(errSymFor(x))
		}
		for _, a := range x.Args {
			addv(a)
		}
	}
	if defs != nil {
		for _, n := range defs.names {
			if !strings.Contains(n, "!") {
				addv(Sym(n, defs.body[n].Sort))
			}
		}
	}
	return sb.String(), values
}

func oblName(rel, cfg, src string) string {
	return "bnd/" + rel + "/" + cfg + "/" + strings.NewReplacer("\n", "\\n", "\t", "\\t", "\r", "\\r").Replace(src)
}

func (cx *Checker) newObl(rel string, c *Case) *core.Obl {
	spec := ReplaySpec{Rel: rel, Src: c.Text, Mask: c.Job.Mask, Ev: c.Job.Ev, Costs: c.Job.Costs, Undef: c.Job.Undef}
	if c.Full != "" {
		spec.Src = c.Full
	}
	b, _ := json.Marshal(spec)
	return &core.Obl{
		Name: oblName(rel, c.Cfg, c.Text), Func: c.Text, Kind: "bounded:" + rel, Tier: core.Bounded,
		ReplayKind: "bounded", ReplayData: map[string]string{"spec": string(b)},
	}
}

// overBudget: the unrolling exceeded the path budget: the program is NOT
// covered. The obligation is kept (status unknown) under the prefix
// "bnd-over-budget/" so that it is never part of a claim "bnd/<relation>/*";
// it is listed in the evidence among the unclaimed undischarged obligations.
func (cx *Checker) overBudget(o *core.Obl) *core.Obl {
	o.Name = "bnd-over-budget/" + strings.TrimPrefix(o.Name, "bnd/")
	o.Status = core.Unknown
	o.Output = fmt.Sprintf("path limit (%d) reached: the program is not covered", cx.MaxPaths)
	cx.mu.Lock()
	cx.nOver++
	cx.mu.Unlock()
	return o
}

func discharge(o *core.Obl, how string) *core.Obl {
	o.Status = core.Discharged
	o.Solver = how
	return o
}

// pathObl builds the obligation "no path satisfies bad(path)".
func (cx *Checker) pathObl(rel string, c *Case, dom *Domain, defs *Defs, extra []*T, un *Unrolled, bad func(pc *T, rr *RunResult) *T) *core.Obl {
	o := cx.newObl(rel, c)
	if un.Trunc {
		return cx.overBudget(o)
	}
	var bads []*T
	for _, p := range un.Paths {
		rr := p.Out.(*RunResult)
		b := bad(And(p.PC...), rr)
		if b == nil || b.IsFalse() {
			continue
		}
		bads = append(bads, b)
	}
	o.Detail = fmt.Sprintf("%d paths, %d nodes", len(un.Paths), len(c.Prog.Nodes))
	if len(bads) == 0 {
		return discharge(o, "syntactic")
	}
	o.Query, _ = cx.setQuery(o, dom, defs, extra, bads)
	return o
}

func (cx *Checker) setQuery(o *core.Obl, dom *Domain, defs *Defs, extra []*T, bads []*T) (string, []string) {
	q, vals := BuildQuery(dom, defs, extra, bads)
	cx.mu.Lock()
	cx.values[o.Name] = vals
	cx.mu.Unlock()
	o.Query = q
	return q, vals
}

// ---------------------------------------------------------------- concrete obligations from the driver

// WFObl: the source compiles (no error, no panic: every source of the family
// is well-formed) and the compiled program satisfies the WF predicate of
// DESIGN 4.1, evaluated by the driver.
func (cx *Checker) WFObl(c *Case) *core.Obl {
	o := cx.newObl("wf", c)
	switch {
	case c.Prog == nil:
		o.Status = core.Unknown
		o.Output = "driver returned no program"
	case c.Prog.Panic != "":
		o.Status = core.Refuted
		o.Detail = "panic: " + c.Prog.Panic
		o.Witness = fmt.Sprintf("src=%s cfg=%s: %s", escSrc(c.Text), c.Cfg, c.Prog.Panic)
	case c.Prog.Err != "":
		o.Status = core.Refuted
		o.Detail = "compile error: " + c.Prog.Err
		o.Witness = fmt.Sprintf("src=%s cfg=%s: Compile returned %q", escSrc(c.Text), c.Cfg, c.Prog.Err)
	case len(c.Prog.WF) > 0:
		o.Status = core.Refuted
		o.Detail = strings.Join(c.Prog.WF, "; ")
		o.Witness = fmt.Sprintf("src=%s cfg=%s: WF violated: %s", escSrc(c.Text), c.Cfg, o.Detail)
	default:
		discharge(o, "driver")
	}
	return o
}

// ---------------------------------------------------------------- safety / unwind (any unrolling)

func (cx *Checker) SafetyObls(c *Case, method string, dom *Domain, un *Unrolled) []*core.Obl {
	suffix := ""
	if method == "TryEval" {
		suffix = ".try"
	}
	safety := cx.pathObl("safety"+suffix, c, dom, nil, nil, un, func(pc *T, rr *RunResult) *T {
		if rr.Panic != "" || rr.Engine != "" {
			return pc
		}
		return nil
	})
	for _, p := range un.Paths {
		rr := p.Out.(*RunResult)
		if rr.Panic != "" {
			safety.Detail += "; panic path: " + rr.Panic
			break
		}
		if rr.Engine != "" {
			safety.Detail += "; engine limitation: " + rr.Engine
			break
		}
	}
	unw := cx.pathObl("unwind"+suffix, c, dom, nil, nil, un, func(pc *T, rr *RunResult) *T {
		if rr.Unwind {
			return pc
		}
		return nil
	})
	if unw.Status != core.Discharged {
		unw.Detail += "; unwinding assertion: more than len(nodes)+1 loop heads on some path"
	}
	cx.setMethod(safety, method)
	cx.setMethod(unw, method)
	return []*core.Obl{safety, unw}
}

func (cx *Checker) setMethod(o *core.Obl, method string) {
	var spec ReplaySpec
	json.Unmarshal([]byte(o.ReplayData["spec"]), &spec)
	spec.Method = method
	b, _ := json.Marshal(spec)
	o.ReplayData["spec"] = string(b)
}

// ---------------------------------------------------------------- P1: eval=LR

// EvalLR: Eval(P) = LR(src): same error identity, and the same value when LR succeeds.
func (cx *Checker) EvalLR(c *Case) []*core.Obl {
	dom := &Domain{}
	un := cx.Unroll(c, "Eval", dom)
	defs := NewDefs()
	rf := NewRef(nil, defs)
	lv, le := rf.LR(c.Src)
	LRv, LRe := defs.Define("LRv", lv), defs.Define("LRe", le)
	o := cx.pathObl("eval=LR", c, dom, defs, nil, un, func(pc *T, rr *RunResult) *T {
		if !rr.Returned() {
			return nil // safety / unwind obligations cover these paths
		}
		rel := And(Eq(rr.E, LRe), Implies(IsENil(LRe), Eq(rr.V, LRv)))
		return And(pc, Not(rel))
	})
	cx.setMethod(o, "Eval")
	return append([]*core.Obl{o}, cx.SafetyObls(c, "Eval", dom, un)...)
}

// ---------------------------------------------------------------- P2: C02

// DirectiveObl: the program compiled from the options map and the one compiled
// from the equivalent leading ";;;; k:v, ..." directive are identical node for node.
func (cx *Checker) DirectiveObl(c *Case, dir *XProg) *core.Obl {
	o := cx.newObl("directive=options", c)
	switch {
	case dir == nil:
		o.Status = core.Unknown
		o.Output = "no directive-form program"
	case !dir.OK():
		o.Status = core.Refuted
		o.Detail = "directive form does not compile: " + dir.Err + dir.Panic
		o.Witness = fmt.Sprintf("src=%s cfg=%s: options compile, directive form fails: %s%s", escSrc(c.Text), c.Cfg, dir.Err, dir.Panic)
	case dir.FP != c.Prog.FP || dir.Dump != c.Prog.Dump:
		o.Status = core.Refuted
		o.Detail = "programs differ"
		o.Witness = fmt.Sprintf("src=%s cfg=%s: options map gives %s, directive gives %s", escSrc(c.Text), c.Cfg, oneLine(c.Prog.Dump), oneLine(dir.Dump))
	default:
		discharge(o, "driver")
	}
	return o
}

func oneLine(s string) string { return strings.Join(strings.Fields(s), " ") }

// C02: for the program compiled under the case's optimisation subset, every
// variable bound:
//
//	U-if-value : Eval(P_c) is a value  =>  U(src) is defined and equal
//	U-if-AllOK : AllOK(src)            =>  Eval(P_c) = U(src)
//	LR-if-value: Reordering off and LR(src) is a value => Eval(P_c) = LR(src)
func (cx *Checker) C02(c *Case, rels []string) []*core.Obl {
	dom := &Domain{AllBound: true}
	un := cx.Unroll(c, "Eval", dom)
	var out []*core.Obl
	for _, rel := range rels {
		defs := NewDefs()
		rf := NewRef(nil, defs)
		var o *core.Obl
		switch rel {
		case "U-if-value":
			uv, ud := rf.U(c.Src)
			Uv, Ud := defs.Define("Uv", uv), defs.Define("Ud", ud)
			o = cx.pathObl(rel, c, dom, defs, nil, un, func(pc *T, rr *RunResult) *T {
				if !rr.Returned() {
					return nil
				}
				return And(pc, IsENil(rr.E), Not(And(Ud, Eq(rr.V, Uv))))
			})
		case "U-if-AllOK":
			uv, _ := rf.U(c.Src)
			Uv, OK := defs.Define("Uv", uv), defs.Define("AllOK", rf.AllOK(c.Src))
			o = cx.pathObl(rel, c, dom, defs, nil, un, func(pc *T, rr *RunResult) *T {
				if !rr.Returned() {
					return nil
				}
				return And(pc, OK, Not(And(IsENil(rr.E), Eq(rr.V, Uv))))
			})
		case "LR-if-value":
			if c.Job.Mask&8 != 0 {
				continue
			}
			lv, le := rf.LR(c.Src)
			LRv, LRe := defs.Define("LRv", lv), defs.Define("LRe", le)
			o = cx.pathObl(rel, c, dom, defs, nil, un, func(pc *T, rr *RunResult) *T {
				if !rr.Returned() {
					return nil
				}
				return And(pc, IsENil(LRe), Not(And(IsENil(rr.E), Eq(rr.V, LRv))))
			})
		}
		cx.setMethod(o, "Eval")
		out = append(out, o)
	}
	return append(out, cx.SafetyObls(c, "Eval", dom, un)...)
}

// ---------------------------------------------------------------- P3: C03 effect trace

// traceOut is the outcome of one joint path of the real code and the reference walker.
type traceOut struct {
	rr       *RunResult
	mismatch *T     // nil: traces agree syntactically; else the condition under which they differ (True: structurally)
	what     string // description of the first difference
	refV     *T
	refE     *T
}

// compareTraces compares two effect traces position by position.
func compareTraces(real, ref []TraceRec) (*T, string) {
	n := len(real)
	if len(ref) < n {
		n = len(ref)
	}
	var neq []*T
	for i := 0; i < n; i++ {
		a, b := real[i], ref[i]
		if a.Kind != b.Kind || a.Name != b.Name || a.Key != b.Key || len(a.Args) != len(b.Args) {
			return True, fmt.Sprintf("position %d: real %s, reference %s", i, a, b)
		}
		for k := range a.Args {
			if a.Args[k].String() != b.Args[k].String() {
				neq = append(neq, Not(Eq(a.Args[k], b.Args[k])))
			}
		}
	}
	if len(real) != len(ref) {
		if len(real) > len(ref) {
			return True, fmt.Sprintf("real trace has the extra call %s (real %d calls, reference %d)", real[n], len(real), len(ref))
		}
		return True, fmt.Sprintf("real trace lacks the call %s (real %d calls, reference %d)", ref[n], len(real), len(ref))
	}
	if len(neq) > 0 {
		return Or(neq...), "argument terms differ"
	}
	return nil, ""
}

func fmtTrace(t []TraceRec) string {
	var s []string
	for _, r := range t {
		s = append(s, r.String())
	}
	return strings.Join(s, "; ")
}

// DumpTree parses the Dump text with the checker's own reader and annotates
// it with the fast marks of the program.
func DumpTree(p *XProg) (*DTree, error) {
	d, err := ParseSrc(p.Dump, false)
	if err != nil {
		return nil, fmt.Errorf("Dump text is not readable: %v", err)
	}
	pt, err := ProgTree(p)
	if err != nil {
		return nil, fmt.Errorf("program table: %v", err)
	}
	return Annotate(d, pt)
}

// Trace: the effect trace of the real Eval (Get and custom-operator calls with
// their argument terms, including the failing last one) equals the trace of LR
// over the optimised tree as printed by Dump; every variable bound.
func (cx *Checker) Trace(c *Case) []*core.Obl {
	return cx.traceRel(c, "trace", "Eval", &Domain{AllBound: true})
}

// TraceTry: the same relation for TryEval when every variable is bound AND available: the three-valued evaluator
// then has nothing unknown to work around, so it must perform exactly the left-to-right short-circuit effects too
// (a deciding and/or operand or if-branch value stops the later operands from being fetched / called).
func (cx *Checker) TraceTry(c *Case) []*core.Obl {
	return cx.traceRel(c, "trace.try", "TryEval", &Domain{AllBound: true, AllAvail: true})
}

func (cx *Checker) traceRel(c *Case, rel, method string, dom *Domain) []*core.Obl {
	o := cx.newObl(rel, c)
	cx.setMethod(o, method)
	mfn := cx.m.Eval
	if method == "TryEval" {
		mfn = cx.m.TryEval
	}
	dt, err := DumpTree(c.Prog)
	note := ""
	if err != nil {
		// the Dump text does not describe the program table. If it is readable at
		// all, the relation is still checked against the tree it shows (fast marks
		// taken structurally), so that a difference comes with a concrete binding.
		d, perr := ParseSrc(c.Prog.Dump, false)
		if perr != nil || !inAlphabet(d) {
			o.Status = core.Refuted
			o.Detail = err.Error()
			o.Witness = fmt.Sprintf("src=%s cfg=%s: %v (dump: %s)", escSrc(c.Text), c.Cfg, err, oneLine(c.Prog.Dump))
			return []*core.Obl{o}
		}
		dt = PlainTree(d)
		markFastStructurally(dt, c.Job.Mask&4 != 0)
		note = "; NOTE: " + err.Error()
	}
	outs, trunc := EnumeratePaths(dom, cx.MaxPaths, func(r *Path) interface{} {
		rr := cx.m.Exec(r, mfn, c.Prog, nil)
		out := &traceOut{rr: rr}
		if !rr.Returned() {
			return out
		}
		w := &RefWalker{P: r, Oracle: DefaultOracle()}
		out.refV, out.refE = w.Eval(dt)
		out.mismatch, out.what = compareTraces(rr.Trace, w.Trace)
		if out.mismatch != nil {
			out.what += " [real: " + fmtTrace(rr.Trace) + " | reference: " + fmtTrace(w.Trace) + "]"
		}
		return out
	})
	cx.mu.Lock()
	cx.nPaths += int64(len(outs))
	cx.nUnroll++
	cx.mu.Unlock()
	un := &Unrolled{Trunc: trunc}
	var bads []*T
	first := ""
	for _, p := range outs {
		to := p.Out.(*traceOut)
		un.Paths = append(un.Paths, PathOut{PC: p.PC, Out: to.rr})
		if to.mismatch != nil {
			bads = append(bads, And(And(p.PC...), to.mismatch))
			if first == "" {
				first = to.what
			}
		}
	}
	o.Detail = fmt.Sprintf("%d joint paths, %d nodes, dump %s%s", len(outs), len(c.Prog.Nodes), oneLine(c.Prog.Dump), note)
	switch {
	case trunc:
		cx.overBudget(o)
	case len(bads) == 0:
		discharge(o, "syntactic")
	default:
		o.Detail += "; candidate difference: " + trunc2(first, 400)
		cx.setQuery(o, dom, nil, nil, bads)
	}
	if method != "Eval" {
		return []*core.Obl{o}
	}
	return append([]*core.Obl{o}, cx.SafetyObls(c, "Eval", dom, un)...)
}

func trunc2(s string, n int) string { return trunc(s, n) }

// inAlphabet: can the reference evaluate this tree (known operators only)?
func inAlphabet(s *Src) bool {
	ok := true
	s.Walk(func(x *Src) {
		if !x.IsLeaf() && x.Op != "if" && !Alpha.IsCustom(x.Op) && !IsBuiltinTerm(x.Op) {
			ok = false
		}
		if x.Op == "if" && len(x.Kids) != 3 {
			ok = false
		}
	})
	return ok
}

func markFastStructurally(t *DTree, on bool) {
	for _, k := range t.Kids {
		markFastStructurally(k, on)
	}
	if on && !t.S.IsLeaf() && t.S.Op != "if" && len(t.Kids) == 2 && t.Kids[0].S.IsLeaf() && t.Kids[1].S.IsLeaf() {
		t.Fast = true
		t.Kids[0].Inlined, t.Kids[1].Inlined = true, true
	}
}

// ---------------------------------------------------------------- joint unrollings

type runSpec struct {
	method   string
	prog     *XProg
	oracle   *Oracle
	sameHeap bool // run on the heap the previous run left behind (same compiled expression evaluated again)
}

type jointOut struct {
	runs []*RunResult // nil entries: not executed on this path (skipped as irrelevant)
}

// Joint executes several unrollings one after the other under the same
// decision cache. stop(i, path, result) == true ends the path after run i.
func (cx *Checker) Joint(dom *Domain, specs []runSpec, stop func(i int, r *Path, rr *RunResult) bool) ([]PathOut, bool) {
	outs, trunc := EnumeratePaths(dom, cx.MaxPaths, func(r *Path) interface{} {
		jo := &jointOut{runs: make([]*RunResult, len(specs))}
		var heap *Heap
		for i, sp := range specs {
			if !sp.sameHeap {
				heap = nil
			}
			rr := cx.m.ExecOn(r, cx.fn(sp.method), sp.prog, sp.oracle, &heap)
			jo.runs[i] = rr
			if !rr.Returned() || (stop != nil && stop(i, r, rr)) {
				break
			}
		}
		return jo
	})
	cx.mu.Lock()
	cx.nPaths += int64(len(outs))
	cx.nUnroll++
	cx.mu.Unlock()
	return outs, trunc
}

// jointObl: obligation over joint paths; bad gets all runs executed on the path.
func (cx *Checker) jointObl(rel string, c *Case, dom *Domain, defs *Defs, outs []PathOut, trunc bool, bad func(pc *T, runs []*RunResult) *T) *core.Obl {
	o := cx.newObl(rel, c)
	if trunc {
		return cx.overBudget(o)
	}
	var bads []*T
	for _, p := range outs {
		jo := p.Out.(*jointOut)
		b := bad(And(p.PC...), jo.runs)
		if b == nil || b.IsFalse() {
			continue
		}
		bads = append(bads, b)
	}
	o.Detail = fmt.Sprintf("%d joint paths, %d nodes", len(outs), len(c.Prog.Nodes))
	if len(bads) == 0 {
		return discharge(o, "syntactic")
	}
	cx.setQuery(o, dom, defs, nil, bads)
	return o
}

// safetyOfRun projects the joint paths on run i for the safety / unwind obligations.
func projectRun(outs []PathOut, i int) *Unrolled {
	un := &Unrolled{}
	for _, p := range outs {
		jo := p.Out.(*jointOut)
		if jo.runs[i] != nil {
			un.Paths = append(un.Paths, PathOut{PC: p.PC, Out: jo.runs[i]})
		}
	}
	return un
}

// CompletedOracle: the binding v' = a ? v : w of C04 (Get on an available
// variable is what TryEval saw; an unavailable one gets the completion value).
func CompletedOracle() *Oracle {
	return &Oracle{
		Get: func(key int64, name string) (*T, *T) {
			s := keySuffix(key, name)
			av := Sym("av_"+s, SBool)
			return Ite(av, Sym("gv_"+s, SVal), Sym("gw_"+s, SVal)), Ite(av, Sym("ge_"+s, SErr), Sym("gwe_"+s, SErr))
		},
		Cached: func(key int64, name string) *T { return True },
	}
}

// GrownOracle: availability a' = a or aw (a subset of a'), values completed.
func GrownOracle() *Oracle {
	o := CompletedOracle()
	o.Cached = func(key int64, name string) *T {
		s := keySuffix(key, name)
		return Or(Sym("av_"+s, SBool), Sym("aw_"+s, SBool))
	}
	return o
}

func definite(rr *RunResult) *T { return And(IsENil(rr.E), Not(Is("VDNE", rr.V))) }

// knownNot: did the path already decide that t is false?
func knownFalse(r *Path, t *T) bool {
	if t.IsFalse() {
		return true
	}
	if t.Op == "not" {
		v, ok := r.Known(t.Args[0])
		return ok && v
	}
	v, ok := r.Known(t)
	return ok && !v
}

// ---------------------------------------------------------------- P4: C04 / C05 (TryEval)

// TrySound: TryEval(P,a,v) = (d,nil), d != DNE, Eval(P, v') = (r,nil) with v' = a ? v : w  =>  r = d.
func (cx *Checker) TrySound(c *Case) []*core.Obl {
	dom := &Domain{}
	outs, trunc := cx.Joint(dom, []runSpec{{method: "TryEval", prog: c.Prog}, {method: "Eval", prog: c.Prog, oracle: CompletedOracle()}},
		func(i int, r *Path, rr *RunResult) bool {
			// TryEval not definite on this path: the implication holds, Eval need not run
			return i == 0 && (rr.V.Op == "VDNE" || knownFalse(r, IsENil(rr.E)))
		})
	o := cx.jointObl("try-sound", c, dom, nil, outs, trunc, func(pc *T, runs []*RunResult) *T {
		t, e := runs[0], runs[1]
		if t == nil || e == nil || !t.Returned() || !e.Returned() {
			return nil
		}
		return And(pc, definite(t), IsENil(e.E), Not(Eq(e.V, t.V)))
	})
	cx.setMethod(o, "TryEval")
	return append([]*core.Obl{o}, cx.SafetyObls(c, "TryEval", dom, projectRun(outs, 0))...)
}

// TryAgree: every variable available  =>  TryEval(P,v) = Eval(P,v), values and error identities.
func (cx *Checker) TryAgree(c *Case) []*core.Obl {
	dom := &Domain{AllAvail: true}
	outs, trunc := cx.Joint(dom, []runSpec{{method: "TryEval", prog: c.Prog}, {method: "Eval", prog: c.Prog}}, nil)
	o := cx.jointObl("try=eval", c, dom, nil, outs, trunc, func(pc *T, runs []*RunResult) *T {
		t, e := runs[0], runs[1]
		if t == nil || e == nil || !t.Returned() || !e.Returned() {
			return nil
		}
		return And(pc, Not(And(Eq(t.E, e.E), Implies(IsENil(e.E), Eq(t.V, e.V)))))
	})
	cx.setMethod(o, "TryEval")
	return []*core.Obl{o}
}

// TryMono: a subset a', TryEval(P,a,v) definite d, TryEval(P,a',v') definite d'  =>  d = d'.
func (cx *Checker) TryMono(c *Case) []*core.Obl {
	dom := &Domain{}
	outs, trunc := cx.Joint(dom, []runSpec{{method: "TryEval", prog: c.Prog}, {method: "TryEval", prog: c.Prog, oracle: GrownOracle()}},
		func(i int, r *Path, rr *RunResult) bool {
			return i == 0 && (rr.V.Op == "VDNE" || knownFalse(r, IsENil(rr.E)))
		})
	o := cx.jointObl("try-mono", c, dom, nil, outs, trunc, func(pc *T, runs []*RunResult) *T {
		t1, t2 := runs[0], runs[1]
		if t1 == nil || t2 == nil || !t1.Returned() || !t2.Returned() {
			return nil
		}
		return And(pc, definite(t1), definite(t2), Not(Eq(t1.V, t2.V)))
	})
	cx.setMethod(o, "TryEval")
	return []*core.Obl{o}
}

// TryK (C05): under NoFail(src,v): K(src,a,v) definite => TryEval(P,a,v) = (K,nil);
// otherwise (DNE,nil) or a definite value -- never an error, never nil.
func (cx *Checker) TryK(c *Case) []*core.Obl {
	dom := &Domain{NoNil: true}
	un := cx.Unroll(c, "TryEval", dom)
	defs := NewDefs()
	rf := NewRef(nil, defs)
	Kt := defs.Define("K", rf.K(c.Src))
	NF := defs.Define("NoFail", rf.NoFail(c.Src))
	o := cx.pathObl("try-K", c, dom, defs, nil, un, func(pc *T, rr *RunResult) *T {
		if !rr.Returned() {
			return nil
		}
		ok := And(IsENil(rr.E), Not(Is("VNil", rr.V)), Implies(Not(Is("VDNE", Kt)), Eq(rr.V, Kt)))
		return And(pc, NF, Not(ok))
	})
	cx.setMethod(o, "TryEval")
	return []*core.Obl{o}
}

// ---------------------------------------------------------------- P5: C10

// CompileCalls: during Compile only built-ins and operators declared stateless
// are invoked: the undeclared custom operators fb / fi are never called (the
// driver counts real invocations); g (declared stateless) may be.
func (cx *Checker) CompileCalls(c *Case) *core.Obl {
	o := cx.newObl("compile-calls", c)
	n := c.Prog.Calls[Alpha.CustomBool] + c.Prog.Calls[Alpha.CustomAny]
	o.Detail = fmt.Sprintf("invocations during Compile: %v", c.Prog.Calls)
	if n > 0 {
		o.Status = core.Refuted
		o.Witness = fmt.Sprintf("src=%s cfg=%s: undeclared custom operator invoked during Compile: %v", escSrc(c.Text), c.Cfg, c.Prog.Calls)
		return o
	}
	return discharge(o, "driver")
}

// EvalTwice: the same compiled expression evaluated twice (second unrolling on
// the heap the first one left behind): same result and the very same effect
// trace again -- nothing is cached or baked into the program at run time.
func (cx *Checker) EvalTwice(c *Case) []*core.Obl {
	dom := &Domain{}
	outs, trunc := cx.Joint(dom, []runSpec{{method: "Eval", prog: c.Prog}, {method: "Eval", prog: c.Prog, sameHeap: true}}, nil)
	first := ""
	o := cx.jointObl("eval-twice", c, dom, nil, outs, trunc, func(pc *T, runs []*RunResult) *T {
		a, b := runs[0], runs[1]
		if a == nil || b == nil || !a.Returned() {
			return nil
		}
		if !b.Returned() {
			return pc // the second evaluation panics / hangs although the first one returned
		}
		mm, what := compareTraces(b.Trace, a.Trace)
		res := And(Eq(a.E, b.E), Implies(IsENil(a.E), Eq(a.V, b.V)))
		if mm != nil {
			if first == "" {
				first = what + " [second: " + fmtTrace(b.Trace) + " | first: " + fmtTrace(a.Trace) + "]"
			}
			return And(pc, Or(mm, Not(res)))
		}
		return And(pc, Not(res))
	})
	if first != "" {
		o.Detail += "; candidate difference: " + trunc2(first, 300)
	}
	cx.setMethod(o, "Eval")
	return []*core.Obl{o}
}

// ErrReached: Reordering off, every variable bound: an error returned by
// Eval(P_c) is the very error LR(src) raises (a deferred failure surfaces only
// if the failing sub-expression is reached), and values agree (C02 iii).
func (cx *Checker) ErrReached(c *Case, full bool) []*core.Obl {
	dom := &Domain{AllBound: true}
	un := cx.Unroll(c, "Eval", dom)
	defs := NewDefs()
	rf := NewRef(nil, defs)
	lv, le := rf.LR(c.Src)
	LRv, LRe := defs.Define("LRv", lv), defs.Define("LRe", le)
	rel := "err-reached"
	if full {
		rel = "eval=LR.bound"
	}
	o := cx.pathObl(rel, c, dom, defs, nil, un, func(pc *T, rr *RunResult) *T {
		if !rr.Returned() {
			return nil
		}
		if full {
			return And(pc, Not(And(Eq(rr.E, LRe), Implies(IsENil(LRe), Eq(rr.V, LRv)))))
		}
		ok := And(Implies(Not(IsENil(rr.E)), Eq(rr.E, LRe)), Implies(And(IsENil(rr.E), IsENil(LRe)), Eq(rr.V, LRv)))
		return And(pc, Not(ok))
	})
	cx.setMethod(o, "Eval")
	return append([]*core.Obl{o}, cx.SafetyObls(c, "Eval", dom, un)...)
}

// ---------------------------------------------------------------- P6: C12 events

// EvDump: compiling with ReportEvent does not change the decompiled program.
func (cx *Checker) EvDump(c *Case) *core.Obl {
	o := cx.newObl("ev-dump", c)
	if !c.Alt.OK() {
		o.Status = core.Refuted
		o.Detail = "the program compiles with ReportEvent but not without: " + c.Alt.Err + c.Alt.Panic
		o.Witness = fmt.Sprintf("src=%s cfg=%s: %s", escSrc(c.Text), c.Cfg, o.Detail)
		return o
	}
	if c.Alt.Dump != c.Prog.Dump {
		o.Status = core.Refuted
		o.Detail = "Dump differs"
		o.Witness = fmt.Sprintf("src=%s cfg=%s: Dump with events %q, without %q", escSrc(c.Text), c.Cfg, oneLine(c.Prog.Dump), oneLine(c.Alt.Dump))
		return o
	}
	return discharge(o, "driver")
}

// EvSame: Eval (TryEval) of the program compiled with ReportEvent returns what
// the program compiled without it returns, for all bindings; same effect trace.
func (cx *Checker) EvSame(c *Case, method string) []*core.Obl {
	dom := &Domain{}
	rel := "ev=noev"
	if method == "TryEval" {
		rel += ".try"
	}
	outs, trunc := cx.Joint(dom, []runSpec{{method: method, prog: c.Prog}, {method: method, prog: c.Alt}}, nil)
	o := cx.jointObl(rel, c, dom, nil, outs, trunc, func(pc *T, runs []*RunResult) *T {
		a, b := runs[0], runs[1]
		if a == nil || b == nil || !a.Returned() || !b.Returned() {
			return nil
		}
		res := And(Eq(a.E, b.E), Implies(IsENil(a.E), Eq(a.V, b.V)))
		if mm, _ := compareTraces(a.Trace, b.Trace); mm != nil {
			return And(pc, Or(mm, Not(res)))
		}
		return And(pc, Not(res))
	})
	cx.setMethod(o, method)
	suffix := "Eval"
	if method == "TryEval" {
		suffix = "TryEval"
	}
	return append([]*core.Obl{o}, cx.SafetyObls(c, suffix, dom, projectRun(outs, 0))...)
}

func termsDiffer(a, b []*T) *T {
	if len(a) != len(b) {
		return True
	}
	var neq []*T
	for i := range a {
		if a[i].String() != b[i].String() {
			neq = append(neq, Not(Eq(a[i], b[i])))
		}
	}
	if len(neq) == 0 {
		return nil
	}
	return Or(neq...)
}

func orNil(xs ...*T) *T {
	var ys []*T
	for _, x := range xs {
		if x != nil {
			ys = append(ys, x)
		}
	}
	if len(ys) == 0 {
		return nil
	}
	return Or(ys...)
}

type evOut struct {
	rr                   *RunResult
	opexec, intact, loop *T // nil: agrees syntactically; else condition of disagreement
	wOp, wIntact, wLoop  string
}

// Events: the ghost log of sends on EventChan of the real Eval against the
// reference evaluation of the Dump tree on the same path:
//
//	ev-opexec : OP_EXEC events, in order = operator applications of the reference:
//	            name, fast flag, arguments as they were at call time, result, error
//	ev-params : the Params slice of each OP_EXEC event, READ FROM THE FINAL HEAP
//	            at the end of the evaluation, still holds the arguments of that call
//	ev-loop   : LOOP events: strictly increasing CurtIdx = the reference's node
//	            visits; Stack = the reference operand stack at that step, both at
//	            send time and in the final heap (private snapshot)
func (cx *Checker) Events(c *Case) []*core.Obl {
	dom := &Domain{}
	mk := func(rel string) *core.Obl { o := cx.newObl(rel, c); cx.setMethod(o, "Eval"); return o }
	oOp, oIn, oLoop := mk("ev-opexec"), mk("ev-params"), mk("ev-loop")
	dt, err := DumpTree(c.Prog)
	if err != nil {
		for _, o := range []*core.Obl{oOp, oIn, oLoop} {
			o.Status = core.Refuted
			o.Detail = err.Error()
			o.Witness = fmt.Sprintf("src=%s cfg=%s: %v", escSrc(c.Text), c.Cfg, err)
		}
		return []*core.Obl{oOp, oIn, oLoop}
	}
	outs, trunc := EnumeratePaths(dom, cx.MaxPaths, func(r *Path) interface{} {
		rr := cx.m.Exec(r, cx.m.Eval, c.Prog, nil)
		out := &evOut{rr: rr}
		if !rr.Returned() {
			return out
		}
		w := &RefWalker{P: r, Oracle: DefaultOracle(), Visited: map[int]bool{}}
		for _, ev := range rr.Events {
			if ev.Type == "LOOP" {
				w.Visited[int(ev.CurtIdx)] = true
			}
		}
		w.Eval(dt)
		var ops, loops []*EventRec
		for _, ev := range rr.Events {
			switch ev.Type {
			case "OP_EXEC":
				ops = append(ops, ev)
			case "LOOP":
				loops = append(loops, ev)
			default:
				out.opexec, out.wOp = True, "event of unknown type "+ev.Type
			}
		}
		// OP_EXEC vs applications
		if len(ops) != len(w.Apps) {
			out.opexec, out.wOp = True, fmt.Sprintf("%d OP_EXEC events, %d operator applications in the reference", len(ops), len(w.Apps))
		} else {
			for i, ev := range ops {
				ap := w.Apps[i]
				if ev.OpName != ap.Name || ev.IsFast != ap.Fast {
					out.opexec, out.wOp = True, fmt.Sprintf("event %d is %s (fast=%v), reference applies %s (fast=%v)", i, ev.OpName, ev.IsFast, ap.Name, ap.Fast)
					break
				}
				d := orNil(termsDiffer(ev.ParamsAtSend, ap.Args), termsDiffer([]*T{ev.Res, ev.Err}, []*T{ap.V, ap.E}))
				if d != nil {
					out.opexec = orNil(out.opexec, d)
					out.wOp = fmt.Sprintf("event %d (%s): params/result differ from the reference application", i, ev.OpName)
				}
				if d := termsDiffer(ev.Params, ap.Args); d != nil {
					out.intact = orNil(out.intact, d)
					if out.wIntact == "" {
						out.wIntact = fmt.Sprintf("OP_EXEC event %d (%s): Params read after the evaluation are %s, the call had %s", i, ev.OpName, fmtTerms(ev.Params), fmtTerms(ap.Args))
					}
				}
			}
		}
		// LOOP vs node visits
		if len(loops) != len(w.Loops) {
			out.loop, out.wLoop = True, fmt.Sprintf("%d LOOP events, %d node visits in the reference", len(loops), len(w.Loops))
		} else {
			prev := int64(-1)
			for i, ev := range loops {
				lr := w.Loops[i]
				if ev.CurtIdx <= prev {
					out.loop, out.wLoop = True, fmt.Sprintf("LOOP positions not strictly increasing: %d after %d", ev.CurtIdx, prev)
					break
				}
				prev = ev.CurtIdx
				if int(ev.CurtIdx) != lr.Idx {
					out.loop, out.wLoop = True, fmt.Sprintf("LOOP event %d reports position %d, the reference visits node %d", i, ev.CurtIdx, lr.Idx)
					break
				}
				if lr.Idx >= 0 && lr.Idx < len(c.Prog.Nodes) && int64(c.Prog.Nodes[lr.Idx].Flag&ntMask) != ev.NodeType {
					out.loop, out.wLoop = True, fmt.Sprintf("LOOP event %d reports node type %d for node %d", i, ev.NodeType, lr.Idx)
					break
				}
				if d := orNil(termsDiffer(ev.StackAtSend, lr.Stack), termsDiffer(ev.Stack, lr.Stack)); d != nil {
					out.loop = orNil(out.loop, d)
					out.wLoop = fmt.Sprintf("LOOP event %d (node %d): stack %s (final heap %s), reference %s", i, lr.Idx, fmtTerms(ev.StackAtSend), fmtTerms(ev.Stack), fmtTerms(lr.Stack))
				}
			}
		}
		return out
	})
	cx.mu.Lock()
	cx.nPaths += int64(len(outs))
	cx.nUnroll++
	cx.mu.Unlock()
	finish := func(o *core.Obl, pick func(*evOut) (*T, string)) {
		o.Detail = fmt.Sprintf("%d joint paths, %d nodes", len(outs), len(c.Prog.Nodes))
		if trunc {
			cx.overBudget(o)
			return
		}
		var bads []*T
		first := ""
		for _, p := range outs {
			eo := p.Out.(*evOut)
			if d, what := pick(eo); d != nil {
				bads = append(bads, And(And(p.PC...), d))
				if first == "" {
					first = what
				}
			}
		}
		if len(bads) == 0 {
			discharge(o, "syntactic")
			return
		}
		o.Detail += "; candidate difference: " + trunc2(first, 400)
		cx.setQuery(o, dom, nil, nil, bads)
	}
	finish(oOp, func(e *evOut) (*T, string) { return e.opexec, e.wOp })
	finish(oIn, func(e *evOut) (*T, string) { return e.intact, e.wIntact })
	finish(oLoop, func(e *evOut) (*T, string) { return e.loop, e.wLoop })
	return []*core.Obl{oOp, oIn, oLoop}
}

func fmtTerms(ts []*T) string {
	var s []string
	for _, t := range ts {
		s = append(s, t.String())
	}
	return "[" + strings.Join(s, " ") + "]"
}

// ---------------------------------------------------------------- P7: C13 Dump round trip

func bareScalar(p *XProg) bool {
	var real []XNode
	for _, n := range p.Nodes {
		if n.Flag&ntMask != ntEvent {
			real = append(real, n)
		}
	}
	if len(real) != 1 || real[0].Flag&ntMask != ntConstant {
		return false
	}
	switch real[0].Val.K {
	case "bool", "int", "str", "nil":
		return true
	}
	return false
}

// Redump: the driver dumps P, recompiles the text unoptimised under the same
// names and dumps again:
//
//	redump-compiles: recompilation succeeds unless P is a bare scalar constant
//	redump-text    : the second Dump equals the first
//	redump-eval    : Eval(P) = Eval(P_recompiled) for all bindings of all variables
func (cx *Checker) Redump(c *Case) []*core.Obl {
	oc, ot := cx.newObl("redump-compiles", c), cx.newObl("redump-text", c)
	re := c.Prog.Re
	if bareScalar(c.Prog) {
		oc.Detail, ot.Detail = "bare scalar constant: "+oneLine(c.Prog.Dump), "bare scalar constant"
		return []*core.Obl{discharge(oc, "driver"), discharge(ot, "driver")}
	}
	if re == nil || !re.OK() {
		msg := "no recompiled program"
		if re != nil {
			msg = re.Err + re.Panic
		}
		oc.Status = core.Refuted
		oc.Detail = "Dump text does not compile: " + msg
		oc.Witness = fmt.Sprintf("src=%s cfg=%s: Dump text %q does not compile: %s", escSrc(c.Text), c.Cfg, c.Prog.Dump, msg)
		return []*core.Obl{oc}
	}
	discharge(oc, "driver")
	if re.Dump != c.Prog.Dump {
		ot.Status = core.Refuted
		ot.Detail = "second Dump differs"
		ot.Witness = fmt.Sprintf("src=%s cfg=%s: Dump %q, Dump of the recompiled program %q", escSrc(c.Text), c.Cfg, c.Prog.Dump, re.Dump)
	} else {
		discharge(ot, "driver")
	}
	dom := &Domain{AllBound: true}
	outs, trunc := cx.Joint(dom, []runSpec{{method: "Eval", prog: c.Prog}, {method: "Eval", prog: re}}, nil)
	oe := cx.jointObl("redump-eval", c, dom, nil, outs, trunc, func(pc *T, runs []*RunResult) *T {
		a, b := runs[0], runs[1]
		if a == nil || b == nil || !a.Returned() {
			return nil
		}
		if !b.Returned() {
			return pc
		}
		return And(pc, Not(And(Eq(a.E, b.E), Implies(IsENil(a.E), Eq(a.V, b.V)))))
	})
	cx.setMethod(oe, "Eval")
	return []*core.Obl{oc, ot, oe}
}

// ---------------------------------------------------------------- helpers

func sortedKeys(m map[string]bool) []string {
	var k []string
	for x := range m {
		k = append(k, x)
	}
	sort.Strings(k)
	return k
}
