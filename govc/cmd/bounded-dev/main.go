// bounded-dev: development driver of the bounded tier.
//
//	bounded-dev run <PROP> [-tier quick|thorough] [-sel file.json | -claims] [-v] [-fail N]
//	bounded-dev enum [-sel file.json] [-tier t]        print the enumerated sources
//	bounded-dev opterms <name> <arity>                 print the direct terms of an operator
//
// VERIF_REPO / VERIF_DIR / VERIF_WORKERS / VERIF_SEED are honoured (core.EnvFromOS).
package main

import (
	"encoding/json"
	"flag"
	"fmt"
	"os"
	"os/exec"
	"path/filepath"
	"regexp"
	"sort"
	"strconv"
	"strings"
	"time"

	"govc/internal/bounded"
	"govc/internal/core"
	"govc/internal/load"
)

func loadSel(env *core.Env, prop, selFile string) json.RawMessage {
	if selFile != "" {
		b, err := os.ReadFile(selFile)
		if err != nil {
			fmt.Fprintln(os.Stderr, err)
			os.Exit(2)
		}
		return b
	}
	cf, err := core.LoadClaims(env.Verif, prop)
	if err != nil {
		fmt.Fprintln(os.Stderr, "no claims file and no -sel:", err)
		os.Exit(2)
	}
	return cf.Engines["bounded"]
}

func main() {
	if len(os.Args) < 2 {
		fmt.Fprintln(os.Stderr, "usage: bounded-dev run|enum|opterms ...")
		os.Exit(2)
	}
	switch os.Args[1] {
	case "opterms":
		ar, _ := strconv.Atoi(os.Args[3])
		d, v, e := bounded.OpTermsSMT(os.Args[2], ar)
		fmt.Println(d)
		fmt.Println("; value:", v)
		fmt.Println("; error:", e)
	case "enum":
		fs := flag.NewFlagSet("enum", flag.ExitOnError)
		selFile := fs.String("sel", "", "selection JSON file")
		tier := fs.String("tier", "quick", "tier")
		prop := fs.String("prop", "C01", "property (claims file) when no -sel")
		fs.Parse(os.Args[2:])
		env := core.EnvFromOS(*prop)
		env.SetTier(*tier)
		var s bounded.Selection
		if err := json.Unmarshal(loadSel(env, *prop, *selFile), &s); err != nil {
			fmt.Fprintln(os.Stderr, err)
			os.Exit(2)
		}
		ts := s.Quick
		if *tier == "thorough" {
			ts = s.Thorough
		}
		srcs, info := bounded.Enumerate(ts.Enum, env.Seed)
		for _, x := range srcs {
			fmt.Println(x)
		}
		b, _ := json.Marshal(info)
		fmt.Fprintln(os.Stderr, string(b))
	case "mutants":
		os.Exit(runMutants(os.Args[2:]))
	case "check":
		os.Exit(runCheck(os.Args[2:]))
	case "run":
		fs := flag.NewFlagSet("run", flag.ExitOnError)
		selFile := fs.String("sel", "", "selection JSON file (default: claims/<PROP>.json engines.bounded)")
		tier := fs.String("tier", "quick", "tier")
		verbose := fs.Bool("v", false, "verbose")
		nfail := fs.Int("fail", 10, "failed obligations to print")
		keep := fs.Bool("keep", false, "keep the work dir")
		if len(os.Args) < 3 {
			fmt.Fprintln(os.Stderr, "usage: bounded-dev run <PROP> ...")
			os.Exit(2)
		}
		prop := os.Args[2]
		fs.Parse(os.Args[3:])
		env := core.EnvFromOS(prop + "-dev")
		env.SetTier(*tier)
		env.Verbose = *verbose
		if os.Getenv("VERIF_WORKERS") == "" {
			env.Workers = 16
		}
		sel := loadSel(env, prop, *selFile)
		os.RemoveAll(env.Work)
		os.MkdirAll(env.Work, 0o755)
		if !*keep {
			defer os.RemoveAll(env.Work)
		}
		t0 := time.Now()
		p, err := load.Load(env.Repo)
		if err != nil {
			fmt.Fprintln(os.Stderr, "load:", err)
			os.Exit(2)
		}
		tl := time.Since(t0)
		res, err := bounded.Run(env, p, prop+"-dev", sel)
		if err != nil {
			fmt.Fprintln(os.Stderr, "engine:", err)
			os.Exit(2)
		}
		by := map[string]int{}
		kinds := map[string]map[string]int{}
		for _, o := range res.Obls {
			by[string(o.Status)]++
			if kinds[o.Kind] == nil {
				kinds[o.Kind] = map[string]int{}
			}
			kinds[o.Kind][string(o.Status)]++
		}
		b, _ := json.MarshalIndent(res.Extra["bounded"], "", " ")
		fmt.Println(string(b))
		var ks []string
		for k := range kinds {
			ks = append(ks, k)
		}
		sort.Strings(ks)
		for _, k := range ks {
			fmt.Printf("%-28s %v\n", k, kinds[k])
		}
		fmt.Printf("load %.1fs total %.1fs obligations %d %v\n", tl.Seconds(), time.Since(t0).Seconds(), len(res.Obls), by)
		n := 0
		nconf, nunconf := 0, 0
		for _, o := range res.Obls {
			if o.Status == core.Refuted && o.Replay != nil {
				if o.Replay.Confirmed {
					nconf++
				} else {
					nunconf++
				}
			}
		}
		if nconf+nunconf > 0 {
			fmt.Printf("replays: %d confirmed, %d NOT confirmed\n", nconf, nunconf)
		}
		for _, o := range res.Obls {
			if o.Status == core.Discharged {
				continue
			}
			n++
			if n > *nfail {
				continue
			}
			fmt.Printf("FAILED %s [%s] %s\n   detail: %s\n   witness: %s\n", o.Name, o.Status, o.Solver, o.Detail, o.Witness)
			if os.Getenv("BOUNDED_DEV_MODEL") != "" {
				fmt.Printf("   model: %v\n   solver output: %s\n", o.Model, o.Output)
			}
			if o.Replay != nil {
				fmt.Printf("   replay confirmed=%v: %s\n", o.Replay.Confirmed, o.Replay.Output)
			} else if o.Output != "" {
				fmt.Printf("   output: %s\n", o.Output)
			}
		}
		if n > 0 {
			fmt.Printf("%d obligations not discharged\n", n)
			os.Exit(1)
		}
	}
}

// ---------------------------------------------------------------- mutants

type mutant struct {
	Name   string          `json:"name"`
	File   string          `json:"file"`
	Old    string          `json:"old"`
	New    string          `json:"new"`
	Nth    int             `json:"nth"` // 0: the text must be unique; k > 0: replace the k-th occurrence
	Sel    json.RawMessage `json:"sel"`
	Expect []string        `json:"expect"`
}

// runMutants applies each mutant of testdata/mutants.json to a scratch copy of
// the repository and checks that the engine reports a violation of one of the
// expected relations with a CONFIRMED replay, and no unconfirmed counterexample.
func runMutants(args []string) int {
	fs := flag.NewFlagSet("mutants", flag.ExitOnError)
	file := fs.String("file", "", "mutants.json (default: <verif>/govc/internal/bounded/testdata/mutants.json)")
	only := fs.String("only", "", "comma separated mutant names")
	scratch := fs.String("scratch", "/tmp/bounded-scratch", "scratch directory for the copies")
	fs.Parse(args)
	base := core.EnvFromOS("mutants-dev")
	if *file == "" {
		*file = filepath.Join(base.Verif, "govc/internal/bounded/testdata/mutants.json")
	}
	b, err := os.ReadFile(*file)
	if err != nil {
		fmt.Fprintln(os.Stderr, err)
		return 2
	}
	var ms []mutant
	if err := json.Unmarshal(b, &ms); err != nil {
		fmt.Fprintln(os.Stderr, err)
		return 2
	}
	bad := 0
	for _, m := range ms {
		if *only != "" && !strings.Contains(","+*only+",", ","+m.Name+",") {
			continue
		}
		t0 := time.Now()
		dir := filepath.Join(*scratch, "mut-"+m.Name)
		os.RemoveAll(dir)
		os.MkdirAll(dir, 0o755)
		if out, err := exec.Command("sh", "-c", fmt.Sprintf("cp %s/*.go %s/go.mod %s/ && (cp %s/go.sum %s/ 2>/dev/null || true)", base.Repo, base.Repo, dir, base.Repo, dir)).CombinedOutput(); err != nil {
			fmt.Println(m.Name, "copy failed:", string(out))
			return 2
		}
		src, _ := os.ReadFile(filepath.Join(dir, m.File))
		text := string(src)
		cnt := strings.Count(text, m.Old)
		switch {
		case cnt == 0:
			fmt.Printf("%-34s MUTATION DOES NOT APPLY (text not found in %s)\n", m.Name, m.File)
			bad++
			continue
		case m.Nth == 0 && cnt != 1:
			fmt.Printf("%-34s MUTATION AMBIGUOUS (%d occurrences in %s)\n", m.Name, cnt, m.File)
			bad++
			continue
		}
		k := m.Nth
		if k == 0 {
			k = 1
		}
		idx := -1
		for i := 0; i < k; i++ {
			j := strings.Index(text[idx+1:], m.Old)
			if j < 0 {
				idx = -1
				break
			}
			idx += 1 + j
		}
		if idx < 0 {
			fmt.Printf("%-34s MUTATION DOES NOT APPLY (occurrence %d)\n", m.Name, k)
			bad++
			continue
		}
		text = text[:idx] + m.New + text[idx+len(m.Old):]
		os.WriteFile(filepath.Join(dir, m.File), []byte(text), 0o644)
		env := core.EnvFromOS("mut-" + m.Name)
		env.SetTier("quick")
		env.Repo = dir
		if os.Getenv("VERIF_WORKERS") == "" {
			env.Workers = 16
		}
		os.RemoveAll(env.Work)
		os.MkdirAll(env.Work, 0o755)
		p, err := load.Load(dir)
		if err != nil {
			fmt.Printf("%-34s MUTANT DOES NOT BUILD: %v\n", m.Name, err)
			bad++
			os.RemoveAll(dir)
			continue
		}
		res, err := bounded.Run(env, p, "mut-"+m.Name, m.Sel)
		os.RemoveAll(env.Work)
		if err != nil {
			fmt.Printf("%-34s ENGINE ERROR: %v\n", m.Name, err)
			bad++
			os.RemoveAll(dir)
			continue
		}
		byRel := map[string][2]int{}
		unconf := 0
		var firstUn *core.Obl
		var sample *core.Obl
		for _, o := range res.Obls {
			if o.Status == core.Discharged {
				continue
			}
			rel := strings.TrimPrefix(o.Kind, "bounded:")
			c := byRel[rel]
			if o.Replay != nil && o.Replay.Confirmed {
				c[0]++
				if sample == nil {
					sample = o
				}
			} else {
				c[1]++
				unconf++
				if firstUn == nil {
					firstUn = o
				}
			}
			byRel[rel] = c
		}
		detected := false
		for _, e := range m.Expect {
			if byRel[e][0] > 0 {
				detected = true
			}
		}
		var rels []string
		for r, c := range byRel {
			rels = append(rels, fmt.Sprintf("%s:%d+%d", r, c[0], c[1]))
		}
		sort.Strings(rels)
		verdict := "DETECTED"
		if !detected {
			verdict = "NOT DETECTED"
			bad++
		}
		fmt.Printf("%-34s %-12s %5.1fs  confirmed+unconfirmed per relation: %s\n", m.Name, verdict, time.Since(t0).Seconds(), strings.Join(rels, " "))
		if sample != nil {
			fmt.Printf("    e.g. %s\n         %s\n", sample.Name, trunc(sample.Witness, 300))
			// the single-obligation Replay entry point must reproduce it
			sample.Replay = nil
			bounded.Replay(env, p, "mut-"+m.Name, sample)
			if sample.Replay == nil || !sample.Replay.Confirmed {
				fmt.Printf("    SINGLE REPLAY DID NOT CONFIRM: %+v\n", sample.Replay)
				bad++
			}
		}
		if firstUn != nil {
			out := firstUn.Output
			if firstUn.Replay != nil {
				out = firstUn.Replay.Output
			}
			fmt.Printf("    unconfirmed e.g. %s [%s]\n         %s\n         %s\n", firstUn.Name, firstUn.Status, trunc(firstUn.Detail, 200), trunc(out, 300))
		}
		os.RemoveAll(dir)
		os.RemoveAll(filepath.Join(env.Verif, "replays", "mut-"+m.Name))
	}
	if bad > 0 {
		fmt.Printf("%d problems\n", bad)
		return 1
	}
	return 0
}

func trunc(s string, n int) string {
	if len(s) > n {
		return s[:n] + "…"
	}
	return s
}

// runCheck mimics `govc check <PROP>` with the bounded engine only (the real
// registration is done by the lead): claims matching, verdict lines, evidence.
func runCheck(args []string) int {
	if len(args) < 1 {
		fmt.Fprintln(os.Stderr, "usage: bounded-dev check <PROP> [-tier t]")
		return 2
	}
	prop := args[0]
	fs := flag.NewFlagSet("check", flag.ExitOnError)
	tier := fs.String("tier", "quick", "tier")
	fs.Parse(args[1:])
	env := core.EnvFromOS(prop)
	env.SetTier(*tier)
	if os.Getenv("VERIF_WORKERS") == "" {
		env.Workers = 16
	}
	t0 := time.Now()
	cf, err := core.LoadClaims(env.Verif, prop)
	if err != nil {
		fmt.Fprintln(os.Stderr, "no claims:", err)
		return 2
	}
	sel, ok := cf.Engines["bounded"]
	if !ok {
		fmt.Fprintln(os.Stderr, "claims file has no bounded engine section")
		return 2
	}
	// only the claims of this engine
	var mine []core.Claim
	for _, c := range cf.Claims {
		if strings.HasPrefix(c.Match, "bnd/") {
			mine = append(mine, c)
		}
	}
	cf.Claims = mine
	os.RemoveAll(env.Work)
	os.MkdirAll(env.Work, 0o755)
	defer os.RemoveAll(env.Work)
	os.RemoveAll(filepath.Join(env.Verif, "replays", prop))
	p, err := load.Load(env.Repo)
	if err != nil {
		fmt.Fprintln(os.Stderr, "load:", err)
		return 2
	}
	res, err := bounded.Run(env, p, prop, sel)
	if err != nil {
		fmt.Fprintln(os.Stderr, "engine:", err)
		return 2
	}
	tEngine := time.Since(t0)
	if f := os.Getenv("BOUNDED_DEV_DUMP"); f != "" {
		// names + status + query size, in the order of generation (determinism check)
		var sb strings.Builder
		for _, o := range res.Obls {
			fmt.Fprintf(&sb, "%s\t%s\t%d\n", o.Name, o.Status, o.SMTBytes)
		}
		os.WriteFile(f, []byte(sb.String()), 0o644)
	}
	v := core.Decide(env, cf, res, func(o *core.Obl) { bounded.Replay(env, p, prop, o) })
	if os.Getenv("BOUNDED_DEV_EVIDENCE") != "" {
		if err := core.WriteEvidence(env, cf, res, v, time.Since(t0), "bounded-dev check "+prop); err != nil {
			fmt.Fprintln(os.Stderr, "evidence:", err)
		}
	}
	nd := 0
	for _, o := range v.Claimed {
		if o.Status == core.Discharged {
			nd++
		}
	}
	fmt.Printf("property %s tier %s: %d obligations generated, %d claimed, %d of the claimed discharged, %d unclaimed; engine %.1fs, total %.1fs\n",
		prop, env.Tier, len(res.Obls), len(v.Claimed), nd, len(v.Unclaimed), tEngine.Seconds(), time.Since(t0).Seconds())
	if os.Getenv("BOUNDED_DEV_EXTRA") != "" {
		b, _ := json.Marshal(res.Extra["bounded"])
		fmt.Println(string(b))
	}
	// obligations per claim (to set the `min` vacuity guards)
	for _, c := range cf.Claims {
		parts := strings.Split(c.Match, "*")
		for i, p := range parts {
			parts[i] = regexp.QuoteMeta(p)
		}
		re := regexp.MustCompile("^" + strings.Join(parts, ".*") + "$")
		n, nd := 0, 0
		for _, o := range res.Obls {
			if re.MatchString(o.Name) {
				n++
				if o.Status == core.Discharged {
					nd++
				}
			}
		}
		fmt.Printf("CLAIM %-28s min %-7d matched %-7d discharged %d\n", c.Match, c.Min, n, nd)
	}
	max := 12
	for i, l := range v.Lines {
		if i < max {
			fmt.Println(trunc(l, 600))
		}
	}
	if len(v.Lines) > max {
		fmt.Printf("... %d more lines\n", len(v.Lines)-max)
	}
	if v.ExitCode == 0 {
		fmt.Println("OK property=" + prop)
	}
	return v.ExitCode
}
