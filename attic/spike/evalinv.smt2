(set-logic ALL)
(declare-const n Int) (declare-const maxS Int) (declare-const oslen Int)
(declare-fun kind (Int) Int)   ; 1 const 2 var 3 op 4 fast 5 cond 7 event
(declare-fun fT (Int) Bool) (declare-fun fF (Int) Bool)
(declare-fun sc (Int) Int) (declare-fun ost (Int) Int) (declare-fun cc (Int) Int) (declare-fun PRE (Int) Int)
(define-fun H ((i Int)) Int (+ (ost i) 1))
(define-fun leaf ((i Int)) Bool (or (= (kind i) 1) (= (kind i) 2)))
(assert (and (< 0 n) (<= n 32767) (<= 1 maxS) (<= maxS n) (>= oslen maxS)))
; WF (the conjuncts needed here)
(assert (forall ((i Int)) (=> (and (<= 0 i) (< i n))
  (and (<= (- 1) (ost i)) (< (ost i) maxS)
       (=> (leaf i) (and (= (H i) (+ (PRE i) 1)) (=> (< (+ i 1) n) (= (PRE (+ i 1)) (H i)))))
       (=> (= (kind i) 3) (and (<= 0 (cc i)) (<= (cc i) (PRE i)) (= (H i) (+ (- (PRE i) (cc i)) 1)) (=> (< (+ i 1) n) (= (PRE (+ i 1)) (H i)))))
       (=> (and (or (fT i) (fF i)) (not (= (kind i) 5)) (not (= (sc i) (- 1))))
           (and (< i (sc i)) (< (sc i) n) (= (kind (sc i)) 3) (>= (ost (sc i)) 0)))))))
; outer state: leaf node i0 just evaluated to boolean b
(declare-const i0 Int) (declare-const osTop0 Int) (declare-const b Bool)
(assert (and (<= 0 i0) (< i0 n) (leaf i0) (= osTop0 (- (PRE i0) 1)) (<= (- 1) osTop0)))
; inner loop state (arbitrary iteration): j = index of curt, iv = loop variable i, osTop
(declare-const j Int) (declare-const iv Int) (declare-const osTop Int)
(define-fun Inv ((j Int) (iv Int) (osTop Int)) Bool
  (and (<= i0 j) (< j n) (or (= j i0) (= (kind j) 3))
       (ite (= j i0) (and (= iv i0) (= osTop osTop0)) (and (= iv j) (= osTop (- (ost j) 1)) (>= (ost j) 0)))))
(assert (Inv j iv osTop))
(define-fun guard ((j Int)) Bool (or (and (not b) (fF j)) (and b (fT j))))
; (1) preservation: guard holds, sc != -1 -> new curt
(push)
(assert (guard j))
(assert (not (= (sc j) (- 1))))
(assert (not (and (<= 0 (sc j)) (< (sc j) n)                       ; nodes[i] in range
                  (Inv (sc j) (sc j) (- (ost (sc j)) 1))
                  (< (- n (sc j)) (- n j)))))                       ; variant decreases
(check-sat)
(pop)
; (2)+(3) exit: guard false -> push at osTop+1, next head iv+1
(push)
(assert (not (guard j)))
(assert (not (and (<= 0 (+ osTop 1)) (< (+ osTop 1) oslen)
                  (=> (< (+ iv 1) n) (= (+ osTop 1) (- (PRE (+ iv 1)) 1)))
                  (> (+ iv 1) i0))))
(check-sat)
(pop)
