// Package load builds go/ssa for /repo's current working tree (build tag
// "verif" on, so that the comment-only contract file is parsed) and offers
// name-based lookup of functions, closures and globals.
package load

import (
	"crypto/sha256"
	"encoding/hex"
	"fmt"
	"go/ast"
	"go/token"
	"go/types"
	"os"
	"path/filepath"
	"sort"
	"strings"

	"golang.org/x/tools/go/packages"
	"golang.org/x/tools/go/ssa"
	"golang.org/x/tools/go/ssa/ssautil"
)

type Program struct {
	Dir    string
	Fset   *token.FileSet
	Pkg    *packages.Package
	Prog   *ssa.Program
	SSA    *ssa.Package
	Hashes map[string]string // file -> sha256
	// all functions of the package incl. methods and anonymous functions, by key
	Funcs map[string]*ssa.Function
	Keys  map[*ssa.Function]string
	// contract comment lines ("//@ ...") of the guarded contract file(s), in order
	ContractLines []ContractLine
	Src           map[string][]byte
}

type ContractLine struct {
	File string
	Line int
	Text string // without the leading "//@"
}

func Load(dir string) (*Program, error) {
	os.Setenv("GOFLAGS", "-mod=mod")
	os.Setenv("GOPROXY", "off")
	os.Setenv("GOSUMDB", "off")
	os.Setenv("GOTOOLCHAIN", "local")
	cfg := &packages.Config{
		Mode:       packages.LoadAllSyntax,
		Dir:        dir,
		BuildFlags: []string{"-tags=verif"},
	}
	pkgs, err := packages.Load(cfg, ".")
	if err != nil {
		return nil, err
	}
	if len(pkgs) != 1 {
		return nil, fmt.Errorf("expected one package, got %d", len(pkgs))
	}
	if len(pkgs[0].Errors) > 0 {
		return nil, fmt.Errorf("package does not type-check: %v", pkgs[0].Errors[0])
	}
	prog, spkgs := ssautil.AllPackages(pkgs, ssa.GlobalDebug|ssa.InstantiateGenerics)
	prog.Build()
	p := &Program{Dir: dir, Fset: pkgs[0].Fset, Pkg: pkgs[0], Prog: prog, SSA: spkgs[0],
		Hashes: map[string]string{}, Funcs: map[string]*ssa.Function{}, Keys: map[*ssa.Function]string{}, Src: map[string][]byte{}}
	for _, f := range pkgs[0].CompiledGoFiles {
		b, err := os.ReadFile(f)
		if err != nil {
			return nil, err
		}
		h := sha256.Sum256(b)
		p.Hashes[filepath.Base(f)] = hex.EncodeToString(h[:])
		p.Src[f] = b
	}
	for _, f := range pkgs[0].Syntax {
		fname := p.Fset.Position(f.Pos()).Filename
		for _, cg := range f.Comments {
			for _, c := range cg.List {
				if strings.HasPrefix(c.Text, "//@") {
					p.ContractLines = append(p.ContractLines, ContractLine{File: filepath.Base(fname), Line: p.Fset.Position(c.Pos()).Line, Text: strings.TrimPrefix(c.Text, "//@")})
				}
			}
		}
	}
	sort.SliceStable(p.ContractLines, func(i, j int) bool {
		a, b := p.ContractLines[i], p.ContractLines[j]
		if a.File != b.File {
			return a.File < b.File
		}
		return a.Line < b.Line
	})
	p.index()
	return p, nil
}

func recvName(t types.Type) string {
	if pt, ok := t.(*types.Pointer); ok {
		t = pt.Elem()
	}
	if n, ok := t.(*types.Named); ok {
		return n.Obj().Name()
	}
	return t.String()
}

func (p *Program) index() {
	var add func(key string, fn *ssa.Function)
	add = func(key string, fn *ssa.Function) {
		if fn == nil {
			return
		}
		if _, dup := p.Funcs[key]; dup {
			key = key + "#" + fmt.Sprint(len(p.Funcs))
		}
		p.Funcs[key] = fn
		p.Keys[fn] = key
		names := closureNames(fn)
		for i, af := range fn.AnonFuncs {
			n := names[af]
			if n == "" {
				n = fmt.Sprintf("$%d", i+1)
			}
			add(key+"."+n, af)
		}
	}
	for _, m := range p.SSA.Members {
		switch x := m.(type) {
		case *ssa.Function:
			add(x.Name(), x)
		case *ssa.Type:
			for _, t := range []types.Type{x.Type(), types.NewPointer(x.Type())} {
				ms := p.Prog.MethodSets.MethodSet(t)
				for i := 0; i < ms.Len(); i++ {
					fn := p.Prog.MethodValue(ms.At(i))
					if fn == nil || fn.Synthetic != "" || fn.Pkg != p.SSA {
						continue
					}
					if _, seen := p.Keys[fn]; seen {
						continue
					}
					add(recvName(fn.Signature.Recv().Type())+"."+fn.Name(), fn)
				}
			}
		}
	}
}

// closureNames names the anonymous functions of fn after the variable they
// are bound to (var x = func..., x := func..., x = func...), when there is one.
func closureNames(fn *ssa.Function) map[*ssa.Function]string {
	out := map[*ssa.Function]string{}
	syn := fn.Syntax()
	if syn == nil {
		return out
	}
	byPos := map[token.Pos]*ssa.Function{}
	for _, af := range fn.AnonFuncs {
		if af.Syntax() != nil {
			byPos[af.Syntax().Pos()] = af
		}
	}
	used := map[string]bool{}
	ast.Inspect(syn, func(n ast.Node) bool {
		switch x := n.(type) {
		case *ast.AssignStmt:
			for i, r := range x.Rhs {
				if fl, ok := r.(*ast.FuncLit); ok && i < len(x.Lhs) {
					if id, ok := x.Lhs[i].(*ast.Ident); ok {
						if af := byPos[fl.Pos()]; af != nil && !used[id.Name] {
							out[af] = id.Name
							used[id.Name] = true
						}
					}
				}
			}
		case *ast.ValueSpec:
			for i, r := range x.Values {
				if fl, ok := r.(*ast.FuncLit); ok && i < len(x.Names) {
					if af := byPos[fl.Pos()]; af != nil && !used[x.Names[i].Name] {
						out[af] = x.Names[i].Name
						used[x.Names[i].Name] = true
					}
				}
			}
		case *ast.KeyValueExpr:
			if fl, ok := x.Value.(*ast.FuncLit); ok {
				if id, ok := x.Key.(*ast.Ident); ok {
					if af := byPos[fl.Pos()]; af != nil && !used[id.Name] {
						out[af] = id.Name
						used[id.Name] = true
					}
				}
			}
		}
		return true
	})
	return out
}

// Lookup finds a function by contract key.
func (p *Program) Lookup(key string) *ssa.Function { return p.Funcs[key] }

// SourceText returns the source text between two positions (single line, trimmed).
func (p *Program) SourceText(from, to token.Pos) string {
	if !from.IsValid() || !to.IsValid() {
		return ""
	}
	a, b := p.Fset.Position(from), p.Fset.Position(to)
	src := p.Src[a.Filename]
	if src == nil || a.Offset < 0 || b.Offset > len(src) || a.Offset > b.Offset {
		return ""
	}
	s := string(src[a.Offset:b.Offset])
	s = strings.Join(strings.Fields(s), " ")
	return s
}

// ExprAt returns the source text of the innermost expression of fn's syntax that starts at pos
// (or contains it as an operator position), used for stable obligation anchors.
func (p *Program) ExprAt(fn *ssa.Function, pos token.Pos, want func(ast.Node) bool) string {
	for fn != nil && fn.Syntax() == nil {
		fn = fn.Parent()
	}
	if fn == nil || !pos.IsValid() {
		return ""
	}
	var best ast.Node
	ast.Inspect(fn.Syntax(), func(n ast.Node) bool {
		if n == nil {
			return false
		}
		if n.Pos() <= pos && pos < n.End() {
			if want == nil || want(n) {
				best = n
			}
			return true
		}
		return n.Pos() <= pos
	})
	if best == nil {
		return ""
	}
	return p.SourceText(best.Pos(), best.End())
}

func (p *Program) PosString(pos token.Pos) string {
	if !pos.IsValid() {
		return ""
	}
	q := p.Fset.Position(pos)
	return fmt.Sprintf("%s:%d", filepath.Base(q.Filename), q.Line)
}
