package vc

import (
	"fmt"
	"go/types"
	"strconv"
	"strings"

	"golang.org/x/tools/go/ssa"

	"govc/internal/core"
)

// specCtx translates a specification expression (S-expression with the special
// forms listed in DESIGN appendix D) into an SMT term in a given program state.
type specCtx struct {
	fr         *frame
	st         *state
	old        *state
	block      *ssa.BasicBlock // loop header or return block used for source-name resolution
	phiPred    int             // >=0: header phis are replaced by the values flowing in from that predecessor
	names      map[string]*Term
	rets       []*Term
	retNames   []string
	calleeView bool
	bound      []string
	letT       map[string]types.Type
	rangeLen   string // (rangelen): the length the range loop at sc.block iterates over
	err        string
}

func (sc *specCtx) fail(format string, a ...interface{}) {
	if sc.err == "" {
		sc.err = fmt.Sprintf(format, a...)
	}
}

func (sc *specCtx) tr(x *core.Sexp) string {
	s, _ := sc.trT(x)
	return s
}

func (sc *specCtx) isBound(n string) bool {
	for _, b := range sc.bound {
		if b == n {
			return true
		}
	}
	return false
}

func (sc *specCtx) trT(x *core.Sexp) (string, types.Type) {
	g := sc.fr.g
	if x.IsAtom() {
		a := x.Atom
		if strings.HasPrefix(a, "$") {
			t := sc.resolve(a[1:])
			if t == nil {
				return "0", nil
			}
			return t.S, t.T
		}
		if len(a) > 1 && a[0] == '-' {
			if _, err := strconv.ParseInt(a[1:], 10, 64); err == nil {
				return "(- " + a[1:] + ")", nil
			}
		}
		if t, ok := sc.letT[a]; ok && sc.isBound(a) {
			return a, t
		}
		if a == "#quote" {
			return g.U.StrLit("\""), types.Typ[types.String]
		}
		if strings.HasPrefix(a, "\"") {
			s, err := strconv.Unquote(a)
			if err != nil {
				s = strings.Trim(a, "\"")
			}
			return g.U.StrLit(s), types.Typ[types.String]
		}
		return a, nil
	}
	if len(x.List) == 0 {
		return "()", nil
	}
	h := x.Head()
	args := x.List[1:]
	if m, ok := g.Spec.Macros[h]; ok && h != "" {
		if len(args) != len(m.Params) {
			sc.fail("macro %s takes %d arguments", h, len(m.Params))
			return "true", nil
		}
		sub := map[string]*core.Sexp{}
		for i, p := range m.Params {
			sub[p] = args[i]
		}
		body := m.Body.Map(func(n *core.Sexp) *core.Sexp {
			if n.IsAtom() {
				if r, ok := sub[n.Atom]; ok {
					return r
				}
			}
			return n
		})
		return sc.trT(body)
	}
	switch h {
	case "ref":
		// (ref T e): e as a pointer to the package's named type T (for quantified references)
		if len(args) == 2 && args[0].IsAtom() {
			if tn := g.P.SSA.Type(args[0].Atom); tn != nil {
				return sc.tr(args[1]), types.NewPointer(tn.Type())
			}
		}
		sc.fail("ref: unknown type %s", args[0])
		return "0", nil
	case "global":
		// (global NAME): the value of a package-level variable in the current state
		if len(args) == 1 && args[0].IsAtom() {
			if gv, ok := g.P.SSA.Members[args[0].Atom].(*ssa.Global); ok {
				t := sc.fr.val(gv)
				r := g.load(sc.st, g.locOfPointer(t))
				return r.S, r.T
			}
		}
		sc.fail("global: unknown package variable %s", args[0])
		return "0", nil
	case "fnid":
		if len(args) == 1 && args[0].IsAtom() {
			if fn := g.P.Lookup(args[0].Atom); fn != nil {
				return g.U.funcID(fn), nil
			}
		}
		sc.fail("fnid: unknown function %s", args[0])
		return "0", nil
	case "clofn": // the function a closure value runs, comparable with (fnid key)
		if len(args) != 1 {
			sc.fail("clofn takes one argument")
			return "0", nil
		}
		return "(cloFn " + sc.tr(args[0]) + ")", types.Typ[types.Int]
	case "old":
		if len(args) != 1 {
			sc.fail("old takes one argument")
			return "0", nil
		}
		save := sc.st
		sc.st = sc.old
		s, t := sc.trT(args[0])
		sc.st = save
		return s, t
	case "len":
		s, t := sc.trT(args[0])
		if t == nil {
			return "(s_len " + s + ")", types.Typ[types.Int]
		}
		switch u := t.Underlying().(type) {
		case *types.Slice:
			return "(s_len " + s + ")", types.Typ[types.Int]
		case *types.Map:
			_, _, card, _, _ := g.mapBases(sc.st, u)
			return "(ite (= " + s + " 0) 0 (select " + card + " " + s + "))", types.Typ[types.Int]
		case *types.Basic:
			return "(strlen " + s + ")", types.Typ[types.Int]
		}
		sc.fail("len of %s", t)
		return "0", nil
	case "cap":
		s, _ := sc.trT(args[0])
		return "(s_cap " + s + ")", types.Typ[types.Int]
	case "off":
		s, _ := sc.trT(args[0])
		return "(s_off " + s + ")", types.Typ[types.Int]
	case "arr":
		// the backing array of a slice (scalar element types): (Array Int <elem sort>)
		s, t := sc.trT(args[0])
		u, ok := typeUnder(t).(*types.Slice)
		if !ok {
			sc.fail("arr of non-slice")
			return "0", nil
		}
		lfs := g.leaves("E_"+typeKey(u.Elem()), u.Elem())
		if len(lfs) != 1 {
			sc.fail("arr of a slice of structs")
			return "0", nil
		}
		b := g.base(sc.st, lfs[0].name, g.leafSort(lfs[0].typ), 2, false)
		return "(select " + b + " (s_arr " + s + "))", types.NewArray(u.Elem(), 0) // marker: backing array of u.Elem()
	case "idx":
		if len(args) != 2 {
			sc.fail("idx takes two arguments")
			return "0", nil
		}
		s, t := sc.trT(args[0])
		i := sc.tr(args[1])
		if t == nil {
			sc.fail("idx: untyped operand %s", args[0])
			return "0", nil
		}
		switch u := t.Underlying().(type) {
		case *types.Slice:
			l := &Loc{base: "E_" + typeKey(u.Elem()), idx: []string{"(s_arr " + s + ")", "(+ (s_off " + s + ") " + i + ")"}, typ: u.Elem()}
			r := g.load(sc.st, l)
			return r.S, u.Elem()
		case *types.Basic:
			return "(strat " + s + " " + i + ")", types.Typ[types.Uint8]
		}
		sc.fail("idx of %s", t)
		return "0", nil
	case "fld":
		if len(args) != 2 || !args[1].IsAtom() {
			sc.fail("fld takes an expression and a field name")
			return "0", nil
		}
		s, t := sc.trT(args[0])
		if t == nil {
			sc.fail("fld: untyped operand %s", args[0])
			return "0", nil
		}
		fname := args[1].Atom
		if pt, ok := t.Underlying().(*types.Pointer); ok {
			sty, ok := pt.Elem().Underlying().(*types.Struct)
			if !ok {
				sc.fail("fld on pointer to %s", pt.Elem())
				return "0", nil
			}
			for i := 0; i < sty.NumFields(); i++ {
				if sty.Field(i).Name() == fname {
					p := &Term{S: s, T: t}
					if at := sc.locTerm(args[0]); at != nil {
						p = at
					}
					l := g.locOfPointer(p)
					fl := &Loc{base: l.base + "." + sanitizeField(fname, i), idx: l.idx, typ: sty.Field(i).Type(), local: l.local}
					r := g.load(sc.st, fl)
					return r.S, sty.Field(i).Type()
				}
			}
			sc.fail("no field %s in %s", fname, pt.Elem())
			return "0", nil
		}
		if sty, ok := t.Underlying().(*types.Struct); ok {
			d := g.U.structInfo(t)
			for i := 0; i < sty.NumFields(); i++ {
				if sty.Field(i).Name() == fname {
					return "(" + d.fnames[i] + " " + s + ")", sty.Field(i).Type()
				}
			}
			sc.fail("no field %s in %s", fname, t)
			return "0", nil
		}
		sc.fail("fld on %s", t)
		return "0", nil
	case "deref":
		s, t := sc.trT(args[0])
		if t == nil {
			sc.fail("deref: untyped")
			return "0", nil
		}
		p := &Term{S: s, T: t}
		if at := sc.locTerm(args[0]); at != nil {
			p = at
		}
		r := g.load(sc.st, g.locOfPointer(p))
		return r.S, r.T
	case "elems":
		// (elems <elemtype> slice): backing array of a slice term whose Go type is not known to the translator
		if len(args) != 2 || !args[0].IsAtom() {
			sc.fail("elems takes an element type name and a slice")
			return "0", nil
		}
		name := "E_" + args[0].Atom
		bi, ok := g.Eng.baseInfos[name]
		leaf, nidx := "Int", 2
		if ok {
			leaf, nidx = bi.leaf, bi.nidx
		} else if args[0].Atom == "Value" {
			leaf = "Val"
		}
		b := g.base(sc.st, name, leaf, nidx, false)
		sl := sc.tr(args[1])
		return "(select " + b + " (s_arr " + sl + "))", nil
	case "setin":
		// (setin <map type key> ref key): membership in a map-backed set given by reference
		if len(args) != 3 || !args[0].IsAtom() {
			sc.fail("setin takes a map type key, a reference and a key")
			return "false", nil
		}
		name := "M_" + args[0].Atom + ".dom"
		b := g.base(sc.st, name, "(Array Int Bool)", 1, false)
		return "(select (select " + b + " " + sc.tr(args[1]) + ") " + sc.tr(args[2]) + ")", types.Typ[types.Bool]
	case "mapval":
		// raw value-array entry of a map (no presence test): usable in patterns
		s, t := sc.trT(args[0])
		k := sc.tr(args[1])
		mt, ok := typeUnder(t).(*types.Map)
		if !ok {
			sc.fail("mapval on non-map")
			return "0", nil
		}
		_, val, _, _, _ := g.mapBases(sc.st, mt)
		if val == "" {
			return g.zero(mt.Elem()), mt.Elem()
		}
		return "(select (select " + val + " " + s + ") " + k + ")", mt.Elem()
	case "mapin", "mapget":
		s, t := sc.trT(args[0])
		k := sc.tr(args[1])
		mt, ok := typeUnder(t).(*types.Map)
		if !ok {
			sc.fail("%s on non-map", h)
			return "false", nil
		}
		dom, val, _, _, _ := g.mapBases(sc.st, mt)
		in := "(select (select " + dom + " " + s + ") " + k + ")"
		if h == "mapin" {
			return in, types.Typ[types.Bool]
		}
		if val == "" {
			return g.zero(mt.Elem()), mt.Elem()
		}
		return "(ite " + in + " (select (select " + val + " " + s + ") " + k + ") " + g.zero(mt.Elem()) + ")", mt.Elem()
	case "mapdom", "mapvals":
		s, t := sc.trT(args[0])
		mt, ok := typeUnder(t).(*types.Map)
		if !ok {
			sc.fail("%s on non-map", h)
			return "0", nil
		}
		dom, val, _, _, _ := g.mapBases(sc.st, mt)
		if h == "mapdom" {
			return "(select " + dom + " " + s + ")", nil
		}
		return "(select " + val + " " + s + ")", nil
	case "fresh":
		s, t := sc.trT(args[0])
		on := g.base(sc.old, "next", "Int", 0, false)
		if t != nil {
			if _, ok := t.Underlying().(*types.Slice); ok {
				return "(>= (s_arr " + s + ") " + on + ")", types.Typ[types.Bool]
			}
		}
		return "(>= " + s + " " + on + ")", types.Typ[types.Bool]
	case "allocated": // the reference existed in the given state: r < next
		s, t := sc.trT(args[0])
		n := g.base(sc.st, "next", "Int", 0, false)
		if t != nil {
			if _, ok := t.Underlying().(*types.Slice); ok {
				return "(< (s_arr " + s + ") " + n + ")", types.Typ[types.Bool]
			}
		}
		return "(< " + s + " " + n + ")", types.Typ[types.Bool]
	case "next":
		return g.base(sc.st, "next", "Int", 0, false), types.Typ[types.Int]
	case "rangelen":
		if sc.rangeLen == "" {
			sc.fail("(rangelen) outside a range loop clause")
			return "0", types.Typ[types.Int]
		}
		return sc.rangeLen, types.Typ[types.Int]
	case "heap":
		// (heap <base> idx...) raw access to a heap component by name
		if len(args) < 1 || !args[0].IsAtom() {
			sc.fail("heap needs a base name")
			return "0", nil
		}
		name := args[0].Atom
		bi, ok := g.Eng.baseInfos[name]
		if !ok {
			// not touched by any function yet: declare from the name when possible
			sc.fail("unknown heap component %s", name)
			return "0", nil
		}
		b := g.base(sc.st, name, bi.leaf, bi.nidx, bi.local)
		var idx []string
		for _, a := range args[1:] {
			idx = append(idx, sc.tr(a))
		}
		return sel(b, idx), nil
	case "iter.pos", "iter.n", "iter.key", "iter.idx", "iter.dom":
		n, _ := strconv.Atoi(args[0].Atom)
		var it *mapIter
		for _, i := range sc.fr.iterOf {
			if i.ordinal == n {
				it = i
			}
		}
		if it == nil {
			sc.fail("no map iterator %d", n)
			return "0", nil
		}
		switch h {
		case "iter.pos":
			return g.base(sc.st, it.posBase, "Int", 0, true), types.Typ[types.Int]
		case "iter.n":
			return it.n, types.Typ[types.Int]
		case "iter.key":
			return "(select " + it.en + " " + sc.tr(args[1]) + ")", it.mt.Key()
		case "iter.idx":
			return "(" + it.pos + " " + sc.tr(args[1]) + ")", types.Typ[types.Int]
		default:
			return it.dom0, nil
		}
	case "forall", "exists":
		if len(args) != 2 || args[0].IsAtom() {
			sc.fail("malformed quantifier")
			return "true", nil
		}
		nb := len(sc.bound)
		for _, v := range args[0].List {
			if len(v.List) == 2 {
				sc.bound = append(sc.bound, v.List[0].Atom)
			}
		}
		body := sc.tr(args[1])
		sc.bound = sc.bound[:nb]
		return "(" + h + " " + args[0].String() + " " + body + ")", types.Typ[types.Bool]
	case "let":
		if len(args) != 2 || args[0].IsAtom() {
			sc.fail("malformed let")
			return "true", nil
		}
		var bs []string
		if sc.letT == nil {
			sc.letT = map[string]types.Type{}
		}
		newT := map[string]types.Type{}
		for _, v := range args[0].List {
			if len(v.List) == 2 {
				s, t := sc.trT(v.List[1])
				bs = append(bs, "("+v.List[0].Atom+" "+s+")")
				newT[v.List[0].Atom] = t
			}
		}
		for k, t := range newT {
			if t != nil {
				sc.letT[k] = t
			} else {
				delete(sc.letT, k)
			}
		}
		nb := len(sc.bound)
		for _, v := range args[0].List {
			if len(v.List) == 2 {
				sc.bound = append(sc.bound, v.List[0].Atom)
			}
		}
		body, bt := sc.trT(args[1])
		sc.bound = sc.bound[:nb]
		return "(let (" + strings.Join(bs, " ") + ") " + body + ")", bt
	case "!":
		// (! term :pattern (...)) pass through with translation of the term and patterns
		var parts []string
		for _, a := range args {
			if a.IsAtom() && strings.HasPrefix(a.Atom, ":") {
				parts = append(parts, a.Atom)
			} else if !a.IsAtom() && len(parts) > 0 && strings.HasPrefix(parts[len(parts)-1], ":") {
				var ps []string
				for _, p := range a.List {
					ps = append(ps, sc.tr(p))
				}
				parts = append(parts, "("+strings.Join(ps, " ")+")")
			} else {
				parts = append(parts, sc.tr(a))
			}
		}
		return "(! " + strings.Join(parts, " ") + ")", nil
	}
	// (select <backing array> i) keeps the element type
	if h == "select" && len(args) == 2 {
		a, at := sc.trT(args[0])
		i := sc.tr(args[1])
		if arrT, ok := at.(*types.Array); ok && arrT.Len() == 0 {
			return "(select " + a + " " + i + ")", arrT.Elem()
		}
		return "(select " + a + " " + i + ")", nil
	}
	// generic application; the head may itself be a list (e.g. (_ is V_x), (as const ...))
	var parts []string
	if x.List[0].IsAtom() {
		parts = append(parts, x.List[0].Atom)
	} else {
		parts = append(parts, x.List[0].String())
	}
	for _, a := range args {
		parts = append(parts, sc.tr(a))
	}
	return "(" + strings.Join(parts, " ") + ")", nil
}

func typeUnder(t types.Type) types.Type {
	if t == nil {
		return nil
	}
	return t.Underlying()
}

// locTerm returns the full term (with location info) for a $name operand, when the
// name designates a pointer with a known location (e.g. an activation-local cell).
func (sc *specCtx) locTerm(x *core.Sexp) *Term {
	if x.IsAtom() && strings.HasPrefix(x.Atom, "$") {
		return sc.resolve(x.Atom[1:])
	}
	return nil
}

// resolve maps a source-level name to a term.
func (sc *specCtx) resolve(name string) *Term {
	fr := sc.fr
	g := fr.g
	if !sc.calleeView {
		name = mapRenamed(g.Eng.renameFor(fr.key, fr.fn), name)
	}
	// results
	if strings.HasPrefix(name, "ret") {
		if n, err := strconv.Atoi(name[3:]); err == nil {
			if n < len(sc.rets) {
				return sc.rets[n]
			}
			sc.fail("no result %d here", n)
			return nil
		}
	}
	for i, rn := range sc.retNames {
		if rn == name && rn != "" && i < len(sc.rets) {
			return sc.rets[i]
		}
	}
	if sc.names != nil {
		if t, ok := sc.names[name]; ok {
			return t
		}
		if t, ok := sc.names["&"+name]; ok { // captured variable: pointer to its cell
			return g.load(sc.st, g.locOfPointer(t))
		}
	}
	if sc.calleeView {
		sc.fail("unknown name $%s in callee contract", name)
		return nil
	}
	// $name@N : loop-carried variable of loop N
	if i := strings.Index(name, "@"); i > 0 {
		n, err := strconv.Atoi(name[i+1:])
		if err == nil {
			for h, ord := range fr.heads {
				if ord == n {
					for _, ins := range fr.fn.Blocks[h].Instrs {
						if ph, ok := ins.(*ssa.Phi); ok && ph.Comment == name[:i] {
							return fr.val(ph)
						}
					}
				}
			}
		}
		sc.fail("cannot resolve $%s", name)
		return nil
	}
	// loop header phis
	if sc.block != nil {
		for _, ins := range sc.block.Instrs {
			ph, ok := ins.(*ssa.Phi)
			if !ok {
				break
			}
			if ph.Comment == name {
				if _, isHead := fr.heads[sc.block.Index]; isHead && sc.phiPred >= 0 {
					return fr.val(ph.Edges[sc.phiPred])
				}
				return fr.val(ph)
			}
		}
	}
	// parameters
	for _, p := range fr.fn.Params {
		if p.Name() == name {
			return fr.val(p)
		}
	}
	// free variables: the value of the captured variable
	for _, fv := range fr.fn.FreeVars {
		if fv.Name() == name {
			return g.load(sc.st, g.locOfPointer(fr.val(fv)))
		}
	}
	// $&name: the address of an address-taken local (e.g. a strings.Builder)
	if strings.HasPrefix(name, "&") {
		for _, b := range fr.fn.Blocks {
			for _, ins := range b.Instrs {
				if a, ok := ins.(*ssa.Alloc); ok && a.Comment == name[1:] {
					if t, ok := fr.env[a]; ok {
						return t
					}
				}
			}
		}
		sc.fail("cannot resolve $%s", name)
		return nil
	}
	// address-taken locals
	for _, b := range fr.fn.Blocks {
		for _, ins := range b.Instrs {
			if a, ok := ins.(*ssa.Alloc); ok && a.Comment == name {
				if t, ok := fr.env[a]; ok {
					return g.load(sc.st, g.locOfPointer(t))
				}
			}
		}
	}
	// nearest dominating reference (DebugRef) or phi
	if sc.block != nil {
		var best ssa.Value
		bestDepth, bestIdx := -1, -1
		for _, b := range fr.fn.Blocks {
			if !fr.dominates(b.Index, sc.block.Index) {
				continue
			}
			if _, reached := fr.out[b.Index]; !reached && b != sc.block {
				continue
			}
			for i, ins := range b.Instrs {
				var cand ssa.Value
				switch x := ins.(type) {
				case *ssa.Phi:
					if x.Comment == name {
						cand = x
					}
				case *ssa.DebugRef:
					if !x.IsAddr {
						if id, ok := x.Expr.(interface{ String() string }); ok {
							_ = id
						}
						if obj := x.Object(); obj != nil && obj.Name() == name {
							// a struct field is a *types.Var too: `n.flag |= x` must not shadow a local called flag
							if v, isVar := obj.(*types.Var); isVar && !v.IsField() {
								cand = x.X
							}
						}
					}
				}
				if cand == nil {
					continue
				}
				if b == sc.block {
					// only phis of the block itself count (the spec is evaluated at block entry)
					if _, ok := ins.(*ssa.Phi); !ok {
						if _, isHead := fr.heads[sc.block.Index]; isHead || sc.rets == nil {
							continue
						}
					}
				}
				d := fr.domDepth[b.Index]
				if d > bestDepth || (d == bestDepth && i > bestIdx) {
					best, bestDepth, bestIdx = cand, d, i
				}
			}
		}
		if best != nil {
			if _, ok := fr.env[best]; ok {
				return fr.val(best)
			}
			if _, ok := best.(*ssa.Const); ok {
				return fr.val(best)
			}
			if _, ok := best.(*ssa.Parameter); ok {
				return fr.val(best)
			}
		}
	}
	_ = g
	sc.fail("cannot resolve $%s in %s", name, fr.key)
	return nil
}

// mapRenamed applies the renamed-locals map (names.go) to a $name of a contract: "x", "&x", "x@N".
func mapRenamed(rn map[string]string, name string) string {
	if len(rn) == 0 {
		return name
	}
	pre, base, suf := "", name, ""
	if strings.HasPrefix(base, "&") {
		pre, base = "&", base[1:]
	}
	if i := strings.Index(base, "@"); i > 0 {
		base, suf = base[:i], base[i:]
	}
	if nn, ok := rn[base]; ok {
		return pre + nn + suf
	}
	return name
}
