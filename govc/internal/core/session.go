package core

import (
	"bufio"
	"fmt"
	"io"
	"os/exec"
	"strings"
	"time"
)

// Session is an interactive solver process (z3-new -in) used to interrogate the model of a
// refuted obligation step by step (lengths first, then as many elements as needed).
type Session struct {
	cmd *exec.Cmd
	in  io.WriteCloser
	out *bufio.Reader
}

func NewSession(solver string, timeoutS int) (*Session, error) {
	if solver == "" || strings.HasPrefix(solver, "cvc5") {
		solver = "z3-new"
	}
	cmd := exec.Command(solver, "-in", fmt.Sprintf("-T:%d", timeoutS))
	in, err := cmd.StdinPipe()
	if err != nil {
		return nil, err
	}
	out, err := cmd.StdoutPipe()
	if err != nil {
		return nil, err
	}
	cmd.Stderr = nil
	if err := cmd.Start(); err != nil {
		return nil, err
	}
	return &Session{cmd: cmd, in: in, out: bufio.NewReader(out)}, nil
}

func (s *Session) Close() {
	s.in.Close()
	done := make(chan struct{})
	go func() { s.cmd.Wait(); close(done) }()
	select {
	case <-done:
	case <-time.After(2 * time.Second):
		s.cmd.Process.Kill()
	}
}

// CheckSat sends the problem and returns sat/unsat/unknown.
func (s *Session) CheckSat(text string) string {
	io.WriteString(s.in, smtHeader+text+"\n(check-sat)\n")
	line, err := s.out.ReadString('\n')
	if err != nil {
		return "unknown"
	}
	return strings.TrimSpace(line)
}

// Values evaluates ground terms in the current model.
func (s *Session) Values(terms []string) map[string]string {
	res := map[string]string{}
	if len(terms) == 0 {
		return res
	}
	io.WriteString(s.in, "(get-value ("+strings.Join(terms, " ")+"))\n")
	// read one balanced S-expression
	var sb strings.Builder
	depth, started := 0, false
	deadline := time.Now().Add(20 * time.Second)
	for time.Now().Before(deadline) {
		r, _, err := s.out.ReadRune()
		if err != nil {
			break
		}
		sb.WriteRune(r)
		if r == '(' {
			depth++
			started = true
		} else if r == ')' {
			depth--
		}
		if started && depth == 0 {
			break
		}
	}
	sx, _, err := ParseSexp(sb.String())
	if err != nil || sx == nil {
		return res
	}
	for i, p := range sx.List {
		if len(p.List) == 2 && i < len(terms) {
			res[terms[i]] = p.List[1].String()
		}
	}
	return res
}

// Value evaluates one term.
func (s *Session) Value(term string) string { return s.Values([]string{term})[term] }
