(set-logic ALL)
(declare-sort Name 0)
(declare-fun mp (Name) Bool)
(declare-fun mk (Name) Int)
(declare-const size Int)
(declare-fun enum (Int) Name)
(assert (>= size 0))
(assert (forall ((i Int)) (=> (and (<= 0 i) (< i size)) (mp (enum i)))))
(declare-fun idx (Name) Int)
(assert (forall ((n Name)) (=> (mp n) (and (<= 0 (idx n)) (< (idx n) size) (= (enum (idx n)) n)))))
; injective
(assert (forall ((a Name) (b Name)) (=> (and (mp a) (mp b) (= (mk a) (mk b))) (= a b))))
; after loop 1
(declare-const ks (Array Int Bool))
(assert (forall ((k Int)) (= (select ks k) (exists ((i Int)) (and (<= 0 i) (< i size) (= (mk (enum i)) k))))))
(declare-const newname Name)
(assert (not (mp newname)))
; case A: found free i in 1..size
(push)
(declare-const i Int)
(assert (and (<= 1 i) (<= i size) (not (select ks i))))
; goal: i not in range -> new map injective
(assert (not (forall ((a Name)) (=> (mp a) (not (= (mk a) i))))))
(check-sat)
(pop)
; case B: all 1..size taken -> size+1 free, using pigeonhole lemma instance
(assert (forall ((t Int)) (=> (and (<= 1 t) (<= t size)) (select ks t))))
; lemma (proved in Lean): injective map with `size` entries whose range contains 1..size has range within 1..size
(assert (=> (forall ((t Int)) (=> (and (<= 1 t) (<= t size)) (exists ((a Name)) (and (mp a) (= (mk a) t)))))
            (forall ((a Name)) (=> (mp a) (and (<= 1 (mk a)) (<= (mk a) size))))))
(assert (not (forall ((a Name)) (=> (mp a) (not (= (mk a) (+ size 1)))))))
(check-sat)
