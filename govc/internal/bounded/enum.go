package bounded

// Source programs: S-expression trees, an independent reader / printer, the
// alphabet, exhaustive enumeration of typed skeletons up to a bound with
// deterministic label rotation, a curated list of shapes that must always be
// present, and seeded random deeper trees.

import (
	"fmt"
	"math/rand"
	"sort"
	"strconv"
	"strings"
)

// Src is a source tree. A leaf has Op == "" and its token text in Leaf
// (identifier, integer, "string" with quotes, or a list literal "(1 2)").
type Src struct {
	Op   string
	Kids []*Src
	Leaf string
}

func (s *Src) IsLeaf() bool { return s.Op == "" }

func (s *Src) String() string {
	if s.IsLeaf() {
		return s.Leaf
	}
	var sb strings.Builder
	sb.WriteString("(" + s.Op)
	for _, k := range s.Kids {
		sb.WriteByte(' ')
		sb.WriteString(k.String())
	}
	sb.WriteByte(')')
	return sb.String()
}

func (s *Src) Size() int {
	n := 1
	for _, k := range s.Kids {
		n += k.Size()
	}
	return n
}

func (s *Src) Depth() int {
	d := 0
	for _, k := range s.Kids {
		if x := k.Depth(); x > d {
			d = x
		}
	}
	return d + 1
}

func (s *Src) Walk(f func(*Src)) {
	f(s)
	for _, k := range s.Kids {
		k.Walk(f)
	}
}

func L(leaf string) *Src             { return &Src{Leaf: leaf} }
func N(op string, kids ...*Src) *Src { return &Src{Op: op, Kids: kids} }

// ---------------------------------------------------------------- reader

// LeafKind classifies a leaf token.
type LeafKind int

const (
	LBool LeafKind = iota
	LInt
	LStr
	LIntList
	LStrList
	LVar
)

// LeafVal is the decoded content of a leaf token.
type LeafVal struct {
	Kind LeafKind
	B    bool
	I    int64
	S    string // string content or variable name
	IL   []int64
	SL   []string
}

type srcTok struct {
	text string // "(" ")" or atom text; for strings the CONTENT
	str  bool
}

// lexSrc tokenises. raw: a string literal is the raw text between two quotes
// (the language of the real lexer: no escapes); !raw: Go-quoted strings as
// printed by Dump (strconv.Quote) are unquoted.
func lexSrc(s string, raw bool) ([]srcTok, error) {
	var toks []srcTok
	rs := []rune(s)
	for i := 0; i < len(rs); {
		c := rs[i]
		switch {
		case c == ' ' || c == '\n' || c == '\t' || c == '\r':
			i++
		case c == ';':
			for i < len(rs) && rs[i] != '\n' {
				i++
			}
		case c == '(' || c == ')':
			toks = append(toks, srcTok{text: string(c)})
			i++
		case c == '"':
			j := i + 1
			if raw {
				for j < len(rs) && rs[j] != '"' {
					j++
				}
				if j >= len(rs) {
					return nil, fmt.Errorf("unclosed string")
				}
				toks = append(toks, srcTok{text: string(rs[i+1 : j]), str: true})
			} else {
				for j < len(rs) && rs[j] != '"' {
					if rs[j] == '\\' {
						j++
					}
					j++
				}
				if j >= len(rs) {
					return nil, fmt.Errorf("unclosed string")
				}
				u, err := strconv.Unquote(string(rs[i : j+1]))
				if err != nil {
					return nil, fmt.Errorf("bad quoted string %s", string(rs[i:j+1]))
				}
				toks = append(toks, srcTok{text: u, str: true})
			}
			i = j + 1
		default:
			j := i
			for j < len(rs) && !strings.ContainsRune(" \n\t\r();\"", rs[j]) {
				j++
			}
			toks = append(toks, srcTok{text: string(rs[i:j])})
			i = j
		}
	}
	return toks, nil
}

func isIntTok(s string) bool {
	_, err := strconv.ParseInt(s, 10, 64)
	return err == nil
}

// ParseSrc reads one expression. List literals become leaves whose text is
// normalised ("(1 2)", "(\"a\" \"b\")", "()").
func ParseSrc(text string, raw bool) (*Src, error) {
	toks, err := lexSrc(text, raw)
	if err != nil {
		return nil, err
	}
	pos := 0
	var rec func() (*Src, error)
	leafOf := func(t srcTok) *Src {
		if t.str {
			return &Src{Leaf: `"` + t.text + `"`}
		}
		return &Src{Leaf: t.text}
	}
	rec = func() (*Src, error) {
		if pos >= len(toks) {
			return nil, fmt.Errorf("unexpected end")
		}
		t := toks[pos]
		pos++
		if t.str || (t.text != "(" && t.text != ")") {
			return leafOf(t), nil
		}
		if t.text == ")" {
			return nil, fmt.Errorf("unexpected )")
		}
		if pos >= len(toks) {
			return nil, fmt.Errorf("unexpected end")
		}
		h := toks[pos]
		// list literal: () or first element integer / string
		if !h.str && h.text == ")" {
			pos++
			return &Src{Leaf: "()"}, nil
		}
		if h.str || isIntTok(h.text) {
			var parts []string
			for pos < len(toks) && (toks[pos].str || toks[pos].text != ")") {
				x := toks[pos]
				if x.str {
					parts = append(parts, `"`+x.text+`"`)
				} else {
					parts = append(parts, x.text)
				}
				pos++
			}
			if pos >= len(toks) {
				return nil, fmt.Errorf("unclosed list")
			}
			pos++
			return &Src{Leaf: "(" + strings.Join(parts, " ") + ")"}, nil
		}
		if h.text == "(" {
			return nil, fmt.Errorf("operator expected")
		}
		pos++
		n := &Src{Op: h.text}
		for {
			if pos >= len(toks) {
				return nil, fmt.Errorf("unclosed (")
			}
			if !toks[pos].str && toks[pos].text == ")" {
				pos++
				return n, nil
			}
			k, err := rec()
			if err != nil {
				return nil, err
			}
			n.Kids = append(n.Kids, k)
		}
	}
	r, err := rec()
	if err != nil {
		return nil, err
	}
	if pos != len(toks) {
		return nil, fmt.Errorf("trailing tokens")
	}
	return r, nil
}

// DecodeLeaf interprets a leaf token under the naming conventions of the
// alphabet: true/false, integers, "strings", list literals, named constants of
// the ConstantMap (consts), everything else a variable.
func DecodeLeaf(leaf string, consts map[string]LeafVal) LeafVal {
	switch {
	case leaf == "true":
		return LeafVal{Kind: LBool, B: true}
	case leaf == "false":
		return LeafVal{Kind: LBool, B: false}
	case strings.HasPrefix(leaf, `"`):
		return LeafVal{Kind: LStr, S: leaf[1 : len(leaf)-1]}
	case strings.HasPrefix(leaf, "("):
		toks, _ := lexSrc(leaf, true)
		var il []int64
		var sl []string
		isStr := true
		for _, t := range toks[1 : len(toks)-1] {
			if t.str {
				sl = append(sl, t.text)
			} else {
				n, _ := strconv.ParseInt(t.text, 10, 64)
				il = append(il, n)
				isStr = false
			}
		}
		if isStr { // includes the empty list, which the parser makes a []string
			if sl == nil {
				sl = []string{}
			}
			return LeafVal{Kind: LStrList, SL: sl}
		}
		return LeafVal{Kind: LIntList, IL: il}
	case isIntTok(leaf):
		n, _ := strconv.ParseInt(leaf, 10, 64)
		return LeafVal{Kind: LInt, I: n}
	}
	if c, ok := consts[leaf]; ok {
		return c
	}
	return LeafVal{Kind: LVar, S: leaf}
}

// ---------------------------------------------------------------- alphabet

// Alphabet fixes the names the driver registers. It is deliberately small: the
// evaluator treats every operator other than and/or/if as an opaque call.
type Alphabet struct {
	BoolVars   []string // registered, boolean-typed (value is a bool or the fetch fails)
	IntVars    []string // registered, range over every scalar value
	UndefBool  string   // undefined-mode variable (AllowUndefinedVariable), boolean-typed
	UndefInt   string   // undefined-mode variable, any scalar
	ConstInt   string   // ConstantMap constant (int64 3)
	ConstBool  string   // ConstantMap constant (true)
	CustomBool string   // registered, undeclared, bool-valued or failing
	CustomAny  string   // registered, undeclared, any scalar or failing
	Stateless  string   // registered AND declared stateless; fixed meaning GTerm
}

var Alpha = Alphabet{
	BoolVars:   []string{"b0", "b1", "b2"},
	IntVars:    []string{"i0", "i1", "i2"},
	UndefBool:  "ub",
	UndefInt:   "ui",
	ConstInt:   "K",
	ConstBool:  "KB",
	CustomBool: "fb",
	CustomAny:  "fi",
	Stateless:  "g",
}

// Consts is the ConstantMap of the driver.
var Consts = map[string]LeafVal{
	"K":  {Kind: LInt, I: 3},
	"KB": {Kind: LBool, B: true},
}

func (a Alphabet) IsBoolVar(n string) bool {
	if n == a.UndefBool {
		return true
	}
	for _, v := range a.BoolVars {
		if v == n {
			return true
		}
	}
	return false
}

func (a Alphabet) IsUndefVar(n string) bool { return n == a.UndefBool || n == a.UndefInt }

func (a Alphabet) IsCustom(op string) bool {
	return op == a.CustomBool || op == a.CustomAny || op == a.Stateless
}

func IsAndName(op string) bool { return op == "and" || op == "&" || op == "&&" }
func IsOrName(op string) bool  { return op == "or" || op == "|" || op == "||" }

func (a Alphabet) Describe() string {
	return "and/&&/& or/||/| not/! xor eq/=/== ne/!= > < >= <= between in + - * / % if; " +
		"bool vars " + strings.Join(a.BoolVars, ",") + " int vars " + strings.Join(a.IntVars, ",") +
		"; undefined-mode vars " + a.UndefBool + "," + a.UndefInt + "; ConstantMap " + a.ConstInt + "=3," + a.ConstBool + "=true; " +
		"literals true false 0 1 2 -1 7 \"a\" (1 2) () (\"a\" \"b\"); custom undeclared " + a.CustomBool + " (bool or fails), " + a.CustomAny +
		" (any scalar or fails); custom stateless-declared " + a.Stateless + " (x>0, fails on 0 / non-int)"
}

// ---------------------------------------------------------------- skeleton enumeration

// EnumCfg bounds the enumeration.
type EnumCfg struct {
	MaxNodes   int  `json:"maxNodes"`   // exhaustive skeletons up to this many source nodes
	MaxDepth   int  `json:"maxDepth"`   // and this depth (a leaf has depth 1)
	MaxArity   int  `json:"maxArity"`   // and/or/arith arity 2..MaxArity
	Variants   int  `json:"variants"`   // label rotations per skeleton (>= 1)
	VarNodes   int  `json:"varNodes"`   // skeletons larger than this get ONE rotation, chosen round-robin (0: all get `variants`)
	MaxSources int  `json:"maxSources"` // cap; beyond it a deterministic stride sample of the larger sizes is kept
	Curated    bool `json:"curated"`    // include the curated shapes
	Random     int  `json:"random"`     // number of seeded random deeper trees
	RandNodes  int  `json:"randNodes"`  // their maximal size
	IntTop     bool `json:"intTop"`     // also enumerate integer-typed top-level expressions
	NoConst    bool `json:"noConst"`    // leave out constant leaves in skeletons (unoptimised checks gain little from them)
}

// skeleton classes
type skel struct {
	cls  string // T F Bv Ic Iv | and or not xor cmp btw in if fb | ar ifi fi
	kids []*skel
	n, d int
}

type skelGen struct {
	cfg  EnumCfg
	memo map[string][]*skel
}

func (g *skelGen) gen(typ byte, n, d int) []*skel {
	key := fmt.Sprintf("%c/%d/%d", typ, n, d)
	if r, ok := g.memo[key]; ok {
		return r
	}
	var out []*skel
	if n == 1 {
		if d >= 1 {
			if typ == 'B' {
				if !g.cfg.NoConst {
					out = append(out, &skel{cls: "T", n: 1, d: 1}, &skel{cls: "F", n: 1, d: 1})
				}
				out = append(out, &skel{cls: "Bv", n: 1, d: 1})
			} else {
				out = append(out, &skel{cls: "Ic", n: 1, d: 1}, &skel{cls: "Iv", n: 1, d: 1})
			}
		}
		g.memo[key] = out
		return out
	}
	if d <= 1 {
		g.memo[key] = nil
		return nil
	}
	type sig struct {
		cls  string
		args string
	}
	var sigs []sig
	if typ == 'B' {
		for k := 2; k <= g.cfg.MaxArity; k++ {
			sigs = append(sigs, sig{"and", strings.Repeat("B", k)}, sig{"or", strings.Repeat("B", k)})
		}
		sigs = append(sigs, sig{"not", "B"}, sig{"xor", "BB"}, sig{"cmp", "II"}, sig{"btw", "III"}, sig{"if", "BBB"}, sig{"fb", "I"})
	} else {
		for k := 2; k <= g.cfg.MaxArity; k++ {
			sigs = append(sigs, sig{"ar", strings.Repeat("I", k)})
		}
		sigs = append(sigs, sig{"ifi", "BII"}, sig{"fi", "I"})
	}
	for _, s := range sigs {
		k := len(s.args)
		if n-1 < k {
			continue
		}
		// all compositions of n-1 into k positive parts
		parts := make([]int, k)
		var rec func(i, rest int, acc []*skel)
		rec = func(i, rest int, acc []*skel) {
			if i == k-1 {
				parts[i] = rest
				for _, c := range g.gen(s.args[i], rest, d-1) {
					kids := append(append([]*skel{}, acc...), c)
					dd := 0
					for _, x := range kids {
						if x.d > dd {
							dd = x.d
						}
					}
					out = append(out, &skel{cls: s.cls, kids: kids, n: n, d: dd + 1})
				}
				return
			}
			for p := 1; p <= rest-(k-1-i); p++ {
				for _, c := range g.gen(s.args[i], p, d-1) {
					rec(i+1, rest-p, append(append([]*skel{}, acc...), c))
				}
			}
		}
		rec(0, n-1, nil)
	}
	g.memo[key] = out
	return out
}

// label pools per class; variant 0 takes the first entry for operators.
var labelPool = map[string][]string{
	"and": {"and", "&&", "&"},
	"or":  {"or", "||", "|"},
	"not": {"not", "!"},
	"xor": {"xor", "eq", "ne"},
	"cmp": {">", "eq", "<", "ne", ">=", "=", "<=", "!=", "==", "in"},
	"btw": {"between"},
	"fb":  {"fb", "g"},
	"ar":  {"/", "+", "%", "-", "*"},
	"fi":  {"fi"},
}

var icPool = []string{"1", "0", "2", "-1", "K", "7", `"a"`}

// instantiate labels a skeleton. variant selects the rotation.
func instantiate(s *skel, variant int) *Src {
	occ := map[string]int{}
	var rec func(s *skel) *Src
	pick := func(cls string, pool []string) string {
		i := occ[cls]
		occ[cls]++
		if variant == 0 {
			return pool[0]
		}
		return pool[(i+variant)%len(pool)]
	}
	rec = func(s *skel) *Src {
		switch s.cls {
		case "T":
			if variant >= 2 && occ["T"]%2 == 1 {
				occ["T"]++
				return L("KB")
			}
			occ["T"]++
			return L("true")
		case "F":
			return L("false")
		case "Bv":
			i := occ["Bv"]
			occ["Bv"]++
			pool := Alpha.BoolVars
			if variant >= 2 {
				pool = append(append([]string{}, pool...), Alpha.UndefBool)
				return L(pool[(i*variant)%len(pool)]) // repeats and the undefined-mode variable
			}
			return L(pool[(i+variant)%len(pool)])
		case "Iv":
			i := occ["Iv"]
			occ["Iv"]++
			pool := Alpha.IntVars
			if variant >= 2 {
				pool = append(append([]string{}, pool...), Alpha.UndefInt)
				return L(pool[(i*variant)%len(pool)])
			}
			return L(pool[(i+variant)%len(pool)])
		case "Ic":
			i := occ["Ic"]
			occ["Ic"]++
			return L(icPool[(i+variant)%len(icPool)])
		case "if", "ifi":
			return N("if", rec(s.kids[0]), rec(s.kids[1]), rec(s.kids[2]))
		}
		op := pick(s.cls, labelPool[s.cls])
		n := &Src{Op: op}
		for _, k := range s.kids {
			n.Kids = append(n.Kids, rec(k))
		}
		if s.cls == "cmp" && op == "in" {
			// second operand becomes a list literal
			lists := []string{"(1 2)", "()", "(0 1 2)"}
			n.Kids[1] = L(lists[(occ["in"]+variant)%len(lists)])
			occ["in"]++
		}
		return n
	}
	return rec(s)
}

// Curated shapes that must always be part of the family (deciding operands
// after failing / unavailable ones, `if` inside and/or, nested and/or of the
// same and of different kind, fast-operator shapes, 3-ary operators, failing
// constant sub-expressions under guards, custom operators).
var curated = []string{
	`(or (if b0 b1 false) (fb 0))`,
	`(and (if b0 (ne i0 0) false) (> (/ 10 i0) 1))`,
	`(or (if b0 b1 b2) b0)`,
	`(and (if b0 b1 b2) b0)`,
	`(and (or b0 b1) (or b1 b2))`,
	`(or (and b0 b1) (and b1 b2))`,
	`(and (and b0 b1) (and b1 b2))`,
	`(or (or b0 b1) (or b1 b2) b0)`,
	`(or b0 (and b1 (or b2 b0)))`,
	`(and b0 (or b1 (and b2 b0)))`,
	`(if (and b0 b1) (or b1 b2) (not b0))`,
	`(and b0 (fb i0) b1)`,
	`(or (fb i0) b0 (fb i1))`,
	`(and (fb i0) (fb i0))`,
	`(and (> i0 1) (< i0 5))`,
	`(or (> i0 1) b0 (< i1 5))`,
	`(if (> i0 0) (/ 10 i0) 0)`,
	`(+ (fi i0) (fi i0))`,
	`(+ (+ 1 2) (+ 3 4))`,
	`(eq (+ i0 1) (+ i1 2))`,
	`(+ i0 i1 i2)`,
	`(and (in i0 (1 2)) b0)`,
	`(or (in "a" ("a" "b")) b0)`,
	`(in i0 ())`,
	`(between i0 0 K)`,
	`(and b0 (> (/ 1 0) 1))`,
	`(or b0 (eq (/ 1 0) 1))`,
	`(if b0 (> (/ 1 0) 0) b1)`,
	`(and (g 1) b0)`,
	`(and (g 0) b0)`,
	`(or (g i0) (fb i0))`,
	`(and ub b0)`,
	`(or b0 ub b1)`,
	`(> ui K)`,
	`(and KB b0 true)`,
	`(or false b0 false)`,
	`(not (and b0 b1))`,
	`(not (or (not b0) b1))`,
	`(xor (and b0 b1) (or b1 b2))`,
	`(and (not b0) (if b1 b2 b0) (or b2 b0))`,
	`(if (if b0 b1 b2) (if b1 b2 b0) (if b2 b0 b1))`,
	`(and (or (and b0 b1) b2) b0)`,
	`(or (and (or b0 b1) b2) b0)`,
	`(eq i0 "a")`,
	`(and (eq i0 i1) (ne i1 i2))`,
	`(if i0 b0 b1)`,
	`(if (fi i0) i1 i2)`,
	`(and (if i0 b0 b1) b2)`,
	`(or b0 (if (fi 1) b1 b2))`,
}

// Enumerate produces the deterministic family of sources for cfg and seed.
func Enumerate(cfg EnumCfg, seed int64) (srcs []*Src, info map[string]interface{}) {
	if cfg.MaxArity < 2 {
		cfg.MaxArity = 3
	}
	if cfg.Variants < 1 {
		cfg.Variants = 1
	}
	g := &skelGen{cfg: cfg, memo: map[string][]*skel{}}
	seen := map[string]bool{}
	bySize := map[int]int{}
	add := func(s *Src) {
		t := s.String()
		if seen[t] || s.IsLeaf() {
			return
		}
		seen[t] = true
		srcs = append(srcs, s)
	}
	nSkel := 0
	types := []byte{'B'}
	if cfg.IntTop {
		types = append(types, 'I')
	}
	var exhaustive []*Src
	for n := 2; n <= cfg.MaxNodes; n++ {
		for _, ty := range types {
			for _, sk := range g.gen(ty, n, cfg.MaxDepth) {
				nSkel++
				v0, v1 := 0, cfg.Variants
				if cfg.VarNodes > 0 && n > cfg.VarNodes {
					v0 = nSkel % 4
					v1 = v0 + 1
				}
				for v := v0; v < v1; v++ {
					s := instantiate(sk, v)
					t := s.String()
					if !seen[t] {
						seen[t] = true
						exhaustive = append(exhaustive, s)
						bySize[n]++
					}
				}
			}
		}
	}
	nExh := len(exhaustive)
	sampled := false
	if cfg.MaxSources > 0 && len(exhaustive) > cfg.MaxSources {
		// keep the smaller sizes completely, stride-sample the rest
		sort.SliceStable(exhaustive, func(i, j int) bool { return exhaustive[i].Size() < exhaustive[j].Size() })
		keepAll := 0
		acc := 0
		for n := 2; n <= cfg.MaxNodes; n++ {
			if acc+bySize[n] > cfg.MaxSources*2/3 {
				break
			}
			acc += bySize[n]
			keepAll = acc
		}
		rest := exhaustive[keepAll:]
		want := cfg.MaxSources - keepAll
		var picked []*Src
		if want > 0 {
			for i := 0; i < want; i++ {
				picked = append(picked, rest[(i*len(rest))/want])
			}
		}
		exhaustive = append(exhaustive[:keepAll:keepAll], picked...)
		sampled = true
	}
	srcs = append(srcs, exhaustive...)
	nCur := 0
	if cfg.Curated {
		for _, c := range curated {
			s, err := ParseSrc(c, true)
			if err != nil {
				panic("curated source " + c + ": " + err.Error())
			}
			if !seen[s.String()] {
				nCur++
			}
			add(s)
		}
	}
	nRand := 0
	if cfg.Random > 0 {
		r := rand.New(rand.NewSource(seed*7919 + 17))
		max := cfg.RandNodes
		if max < 8 {
			max = 20
		}
		for tries := 0; nRand < cfg.Random && tries < cfg.Random*20; tries++ {
			var s *Src
			d := 2 + r.Intn(4)
			if r.Intn(5) == 0 {
				s = randInt(r, d)
			} else {
				s = randBool(r, d)
			}
			if s.IsLeaf() || s.Size() > max || seen[s.String()] {
				continue
			}
			add(s)
			nRand++
		}
	}
	sort.SliceStable(srcs, func(i, j int) bool {
		a, b := srcs[i], srcs[j]
		if a.Size() != b.Size() {
			return a.Size() < b.Size()
		}
		return a.String() < b.String()
	})
	maxN, maxD := 0, 0
	for _, s := range srcs {
		if s.Size() > maxN {
			maxN = s.Size()
		}
		if s.Depth() > maxD {
			maxD = s.Depth()
		}
	}
	info = map[string]interface{}{
		"exhaustive_max_nodes": cfg.MaxNodes, "exhaustive_max_depth": cfg.MaxDepth, "max_arity": cfg.MaxArity,
		"skeletons": nSkel, "label_variants": cfg.Variants, "exhaustive_sources": nExh, "exhaustive_sampled_down": sampled,
		"curated": nCur, "random": nRand, "sources": len(srcs), "largest_source_nodes": maxN, "deepest_source": maxD,
	}
	return srcs, info
}

// ---------------------------------------------------------------- random deeper trees (thorough tier)

func randBool(r *rand.Rand, d int) *Src {
	if d <= 0 || r.Intn(5) == 0 {
		switch r.Intn(8) {
		case 0:
			return L("true")
		case 1:
			return L("false")
		case 2:
			return L(Alpha.UndefBool)
		case 3:
			return L(Alpha.ConstBool)
		default:
			return L(Alpha.BoolVars[r.Intn(len(Alpha.BoolVars))])
		}
	}
	switch r.Intn(12) {
	case 0, 1, 2:
		op := []string{"and", "&&", "&"}[r.Intn(3)]
		n := &Src{Op: op}
		for i, k := 0, 2+r.Intn(2); i < k; i++ {
			n.Kids = append(n.Kids, randBool(r, d-1))
		}
		return n
	case 3, 4, 5:
		op := []string{"or", "||", "|"}[r.Intn(3)]
		n := &Src{Op: op}
		for i, k := 0, 2+r.Intn(2); i < k; i++ {
			n.Kids = append(n.Kids, randBool(r, d-1))
		}
		return n
	case 6:
		return N([]string{"not", "!"}[r.Intn(2)], randBool(r, d-1))
	case 7:
		op := []string{"<", ">", "<=", ">=", "=", "!=", "eq", "ne"}[r.Intn(8)]
		return N(op, randInt(r, d-1), randInt(r, d-1))
	case 8, 9:
		return N("if", randBool(r, d-1), randBool(r, d-1), randBool(r, d-1))
	case 10:
		switch r.Intn(3) {
		case 0:
			return N("xor", randBool(r, d-1), randBool(r, d-1))
		case 1:
			return N("between", randInt(r, d-1), randInt(r, d-1), randInt(r, d-1))
		default:
			return N("in", randInt(r, d-1), L([]string{"(1 2)", "()", "(0 1 2)"}[r.Intn(3)]))
		}
	default:
		return N([]string{"fb", "g", "fb"}[r.Intn(3)], randInt(r, d-1))
	}
}

func randInt(r *rand.Rand, d int) *Src {
	if d <= 0 || r.Intn(3) == 0 {
		if r.Intn(2) == 0 {
			return L(icPool[r.Intn(len(icPool))])
		}
		if r.Intn(6) == 0 {
			return L(Alpha.UndefInt)
		}
		return L(Alpha.IntVars[r.Intn(len(Alpha.IntVars))])
	}
	switch r.Intn(5) {
	case 0, 1:
		op := []string{"+", "-", "*", "/", "%"}[r.Intn(5)]
		n := &Src{Op: op}
		for i, k := 0, 2+r.Intn(2); i < k; i++ {
			n.Kids = append(n.Kids, randInt(r, d-1))
		}
		return n
	case 2:
		return N("if", randBool(r, d-1), randInt(r, d-1), randInt(r, d-1))
	default:
		return N("fi", randInt(r, d-1))
	}
}
