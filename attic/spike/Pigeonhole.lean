import Mathlib.Data.Finset.Card
import Mathlib.Order.Interval.Finset.Nat

/-- If a set of `n` naturals contains `1..n` it is exactly `1..n`; in particular `n+1` is not in it. -/
theorem pigeon (S : Finset ℕ) (n : ℕ) (hcard : S.card = n)
    (hsub : Finset.Icc 1 n ⊆ S) : n + 1 ∉ S := by
  have h : Finset.Icc 1 n = S :=
    Finset.eq_of_subset_of_card_le hsub (by simp [hcard])
  rw [← h]
  simp
